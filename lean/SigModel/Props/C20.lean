/-
C20 — the event bus delivers per subject in order to exactly the registered listeners.

Model: `Model/Bus.lean` (small-step; every interleaving of the critical sections of async_events.go,
async_events_nats.go, natsclient_loopback.go is an execution `Reach`).  Spec: `Spec/Bus.lean` (`admits`).
Invariants: `Lemmas/Bus.lean`.

For every execution:
  * `C20_no_duplicates`            no listener is handed a message twice (also across leaving and joining again);
  * `C20_only_while_registered`    every callback is backed by a registration of that listener on the message's
                                   subject, and the message was published before every later unregistration;
    `C20_other_subjects`, `C20_nothing_after_unregister`  the two readings the statement names;
  * `C20_order`                    per listener and subject callbacks come in publication order, also across leaving
                                   and joining again (`C20_new_subscriber_waits`: a subscriber made for a subject
                                   takes nothing before the closed one has finished);
  * `C20_conservation`             a message published after a registration completed is, for a listener that
                                   stayed registered and below the slow-consumer threshold, in `incoming`, being
                                   sent, queued, in flight for that listener, or delivered;
    `C20_delivery_partial`         hence delivered at quiescence;
    `C20_delivery_counterexample`  "… and before unregistration began" is false for an asynchronous bus: a message
                                   still queued when the listener unregisters is dropped for it;
  * `C20_publish_never_blocks`, `C20_register_never_blocks`, `C20_dispatcher_never_blocked`, `C20_progress`
                                   nobody waits for a consumer; quiescence is the only state without an enabled
                                   internal action;
  * `C20_admits`, `C20_admits_widen`, `C20_admits_recorded`  every recorded history of an execution
                                   satisfies the executable spec `admits` the driver judges the implementation with.
-/
import SigModel.Lemmas.Bus

namespace SigModel.Bus
open SigModel.Generated.Bus

/-- The facts the model is defined over, as the current source has them. -/
theorem C20_facts :
    snapshotIteration = true ∧ closeOnLast = true ∧ waitsForPrevious = true ∧ sendNonBlocking = true ∧ 0 < chanCap ∧
    publishNeverWaits = true ∧ dispatchPopsFront = true ∧ runUnsubscribesOnClose = true ∧
    subscribeUnderClientLock = true ∧ dispatchProgram = "C?(r)MI(A)UdI(Z)" ∧
    (registerAtomicBackendRoom && registerAtomicRoom && registerAtomicUser && registerAtomicSession) = true ∧
    (addUnderLockBackendRoom && addUnderLockRoom && addUnderLockUser && addUnderLockSession) = true := by
  decide

/-- Subjects of different kinds never coincide: no prefix is a prefix of another (the suffix is base64 for
room / user / backend-room subjects; session ids are appended verbatim). -/
theorem C20_subject_kinds_disjoint :
    let ps := [subjectPrefixBackendRoom, subjectPrefixRoom, subjectPrefixUser, subjectPrefixSession]
    (ps.all fun a => ps.all fun b => a == b || !(a.toList.isPrefixOf b.toList)) = true ∧
    (subjectHasBackendBackendRoom && subjectHasBackendRoom && subjectHasBackendUser && subjectSuffixBase64) = true := by
  decide

theorem C20_no_duplicates {st : State} (h : Reach st) (l : Nat) : (st.received l).Nodup := by
  have nd := h.inv.nd
  unfold ND at nd
  unfold State.received
  rw [List.Nodup, List.pairwise_map]
  have := nd.filter (fun r => decide (r.l = l))
  refine List.Pairwise.imp_of_mem ?_ this
  intro r r' hr hr' hrel e
  simp only [List.mem_filter, decide_eq_true_eq] at hr hr'
  exact hrel ⟨hr.2.trans hr'.2.symm, e⟩

theorem C20_order {st : State} (h : Reach st) (l s : Nat) : (st.receivedOn l s).Pairwise (· < ·) := by
  have od := h.inv.od
  unfold OD at od
  unfold State.receivedOn State.received
  have h1 := od.filter (fun r => decide (r.l = l))
  have h2 : ((st.recvs.filter fun r => decide (r.l = l)).map (·.i)).Pairwise
      (fun i i' => st.subjOf i = st.subjOf i' → i < i') := by
    rw [List.pairwise_map]
    refine List.Pairwise.imp_of_mem ?_ h1
    intro r r' hr hr' hrel
    simp only [List.mem_filter, decide_eq_true_eq] at hr hr'
    exact hrel (hr.2.trans hr'.2.symm)
  have h3 := h2.filter (fun i => decide (st.subjOf i = some s))
  refine List.Pairwise.imp_of_mem ?_ h3
  intro i i' hi hi' hrel
  simp only [List.mem_filter, decide_eq_true_eq] at hi hi'
  exact hrel (hi.2.trans hi'.2.symm)

theorem C20_only_while_registered {st : State} (h : Reach st) {r : RecvEv} (hr : r ∈ st.recvs) :
    ∃ p R, st.log[r.i]? = some p ∧ p.t < r.t ∧ R ∈ st.regs ∧ R.l = r.l ∧ R.s = p.s ∧ R.t < r.t ∧
      ∀ U, U ∈ st.unregs → U.l = r.l → U.s = p.s → R.t < U.t → p.t < U.t := by
  obtain ⟨p, R, a, b, c, d, e, f, g⟩ := h.inv.rg.recv_reg r hr
  exact ⟨p, R, a, b, c, d, e, f, fun U hU e1 e2 => g U hU (e1.trans d.symm) (e2.trans e.symm)⟩

theorem mem_received {st : State} {l i : Nat} : i ∈ st.received l ↔ ∃ r, r ∈ st.recvs ∧ r.l = l ∧ r.i = i := by
  simp [State.received, List.mem_map, List.mem_filter, and_assoc]

theorem C20_other_subjects {st : State} (h : Reach st) (l s : Nat)
    (hnever : ∀ R, R ∈ st.regs → ¬(R.l = l ∧ R.s = s)) : st.receivedOn l s = [] := by
  rw [List.eq_nil_iff_forall_not_mem]
  intro i hi
  simp only [State.receivedOn, List.mem_filter, decide_eq_true_eq] at hi
  obtain ⟨r, hr, e1, e2⟩ := mem_received.mp hi.1
  obtain ⟨p, R, a, _, c, d, e, _, _⟩ := C20_only_while_registered h hr
  apply hnever R c
  refine ⟨d.trans e1, ?_⟩
  have := hi.2
  rw [← e2, State.subjOf, a] at this
  simp only [Option.map_some, Option.some.injEq] at this
  exact e.trans this

theorem C20_nothing_after_unregister {st : State} (h : Reach st) {U : CallEv} (hU : U ∈ st.unregs)
    (hlast : ∀ R, R ∈ st.regs → R.l = U.l → R.s = U.s → R.t < U.t)
    {i : Nat} {p : PubEv} (hp : st.log[i]? = some p) (hs : p.s = U.s) (hafter : U.t < p.t) :
    i ∉ st.received U.l := by
  intro hi
  obtain ⟨r, hr, e1, e2⟩ := mem_received.mp hi
  obtain ⟨p', R, a, _, c, d, e, _, g⟩ := C20_only_while_registered h hr
  rw [e2, hp] at a; cases a
  have := g U hU e1.symm hs.symm (hlast R c (d.trans e1) (e.trans hs))
  omega

theorem C20_conservation {st : State} (h : Reach st) (hd : st.dropped = false) {R : CallEv} (hR : R ∈ st.regs)
    (hS : Stays st R) {i : Nat} {p : PubEv} (hp : st.log[i]? = some p) (hs : p.s = R.s) (ht : R.t < p.t) :
    ∃ k, st.active R.s = some k ∧ R.l ∈ (st.sub k).listeners ∧ Where st k R.l i := by
  obtain ⟨k, a, b⟩ := h.inv.cv.stays_active R hR hS
  exact ⟨k, a, b, h.inv.cv.cons hd R hR hS i p hp hs ht k a⟩

theorem C20_delivery_partial {st : State} (h : Reach st) (hq : Quiescent st) (hd : st.dropped = false)
    {R : CallEv} (hR : R ∈ st.regs) (hS : Stays st R) {i : Nat} {p : PubEv} (hp : st.log[i]? = some p)
    (hs : p.s = R.s) (ht : R.t < p.t) : i ∈ st.received R.l := by
  obtain ⟨k, a, b, hw⟩ := C20_conservation h hd hR hS hp hs ht
  obtain ⟨q1, q2, q3⟩ := hq
  have w := h.inv.wf
  have hk := w.act_lt _ k a
  have hopen := (w.act_subj _ k a).2.1
  have hatt : (st.sub k).attached = true := by
    cases hatt : (st.sub k).attached with
    | true => rfl
    | false => have := (w.subok k hk).detached_closed hatt; rw [hopen] at this; cases this
  obtain ⟨c1, c2⟩ := q3 k hk hatt
  have hi : i < st.log.length := by
    rcases Nat.lt_or_ge i st.log.length with g | g
    · exact g
    · rw [List.getElem?_eq_none g] at hp; cases hp
  rcases hw with g | g | g | g | g
  · omega
  · rw [q2] at g; cases g.2
  · rw [c1] at g; cases g
  · rw [c2] at g; cases g.1
  · exact mem_received.mpr g

/-! ### nobody waits -/

theorem C20_publish_never_blocks (st : State) (s : Nat) : ∃ st', step st (.publish s) = some st' := ⟨_, rfl⟩

theorem C20_register_never_blocks (st : State) (l s : Nat) :
    (∃ st', step st (.register l s) = some st') ∧ (∃ st', step st (.unregister l s) = some st') := ⟨⟨_, rfl⟩, ⟨_, rfl⟩⟩

/-- The dispatcher of the loopback client always has an enabled step while something is queued: a full
channel (slow consumer) makes it drop the message, never wait. -/
theorem C20_dispatcher_never_blocked (st : State) (hin : st.disp < st.log.length ∨ st.sending ≠ []) :
    (∃ st', step st .dispatch = some st') ∨ (∃ st', step st .send = some st') := by
  by_cases hs : st.sending = []
  · left
    rcases hin with g | g
    · simp only [step, dispatch, hs, if_true]
      rw [List.getElem?_eq_getElem g]
      exact ⟨_, rfl⟩
    · exact absurd hs g
  · right
    simp only [step, send]
    cases hsd : st.sending with
    | nil => exact absurd hsd hs
    | cons k rest =>
      simp only
      split
      · exact ⟨_, rfl⟩
      · simp only [sendNonBlocking_true, if_true]; exact ⟨_, rfl⟩

def Act.internal : Act → Bool
  | .publish _ | .register _ _ | .unregister _ _ => false
  | _ => true

/-- a receiver goroutine that is processing a message can always take its next step -/
theorem busy_progress {st : State} {k i : Nat} (hk : k < st.nsubs) (hc : (st.sub k).cur = some i) :
    ∃ a st', a.internal = true ∧ step st a = some st' := by
  cases hsn : (st.sub k).snapped with
  | false =>
    have : ∃ st', step st (.snap k) = some st' := by
      simp only [step, snap, hk, hc, hsn, Option.isSome_some, and_self, if_true]; exact ⟨_, rfl⟩
    obtain ⟨st', e⟩ := this
    exact ⟨_, st', rfl, e⟩
  | true =>
    cases hp : (st.sub k).pending with
    | some l =>
      have : ∃ st', step st (.call k) = some st' := by
        simp only [step, call, hk, hp, hc, if_true]; exact ⟨_, rfl⟩
      obtain ⟨st', e⟩ := this
      exact ⟨_, st', rfl, e⟩
    | none =>
      cases ht : (st.sub k).tovisit with
      | cons l rest =>
        have : ∃ st', step st (.pick k l) = some st' := by
          simp only [step, pick, hk, hsn, hp, ht, List.mem_cons, true_or, and_self, if_true]; exact ⟨_, rfl⟩
        obtain ⟨st', e⟩ := this
        exact ⟨_, st', rfl, e⟩
      | nil =>
        have : ∃ st', step st (.finish k) = some st' := by
          simp only [step, finish, hk, hc, hsn, ht, hp, Option.isSome_some, and_self, if_true]; exact ⟨_, rfl⟩
        obtain ⟨st', e⟩ := this
        exact ⟨_, st', rfl, e⟩

/-- Quiescence is exactly "no internal action enabled": in every other reachable state some goroutine can
move (no deadlock between dispatcher, receivers, registration and publication; a subscriber waiting for the
closed one of its subject is never waiting in vain: that one can finish). -/
theorem C20_progress {st : State} (h : Reach st) (hq : ¬ Quiescent st) :
    ∃ a st', a.internal = true ∧ step st a = some st' := by
  have w := h.inv.wf
  by_cases h1 : st.disp < st.log.length ∨ st.sending ≠ []
  · rcases C20_dispatcher_never_blocked st h1 with ⟨st', e⟩ | ⟨st', e⟩
    · exact ⟨_, st', rfl, e⟩
    · exact ⟨_, st', rfl, e⟩
  · have hd : st.disp = st.log.length := by have := w.disp_le; omega
    have hs : st.sending = [] := by
      cases hsd : st.sending with
      | nil => rfl
      | cons a b => exact absurd (Or.inr (by simp [hsd])) h1
    have : ∃ k, k < st.nsubs ∧ (st.sub k).attached = true ∧ ¬((st.sub k).chan = [] ∧ (st.sub k).cur = none) := by
      apply Classical.byContradiction
      intro hn
      apply hq
      refine ⟨hd, hs, ?_⟩
      intro k hk ha
      apply Classical.byContradiction
      intro hc
      exact hn ⟨k, hk, ha, hc⟩
    obtain ⟨k, hk, ha, hne⟩ := this
    cases hc : (st.sub k).cur with
    | some i => exact busy_progress hk hc
    | none =>
      cases hch : (st.sub k).chan with
      | nil => exact absurd ⟨hch, hc⟩ hne
      | cons i rest =>
        by_cases hed : earlierDone st k = true
        · have : ∃ st', step st (.take k) = some st' := by
            simp only [step, take, hk, ha, hc, hch, hed, or_true, and_self, if_true]; exact ⟨_, rfl⟩
          obtain ⟨st', e⟩ := this
          exact ⟨_, st', rfl, e⟩
        · -- an earlier subscriber of the subject is still running: it is closed and can move
          have : ∃ k1, k1 < k ∧ (st.sub k1).subj = (st.sub k).subj ∧ (st.sub k1).attached = true := by
            apply Classical.byContradiction
            intro hn
            apply hed
            rw [earlierDone_iff]
            intro k' hk' hs'
            cases hatt : (st.sub k').attached with
            | false => rfl
            | true => exact absurd ⟨k', hk', hs', hatt⟩ hn
          obtain ⟨k1, h1k, hs1, ha1⟩ := this
          have hk1 : k1 < st.nsubs := by omega
          have hcl := (h.inv.ix.born_order k1 k h1k hk hs1).1
          cases hc1 : (st.sub k1).cur with
          | some i1 => exact busy_progress hk1 hc1
          | none =>
            have : ∃ st', step st (.exit k1) = some st' := by
              simp only [step, Bus.exit, hk1, ha1, hcl, hc1, and_self, if_true]; exact ⟨_, rfl⟩
            obtain ⟨st', e⟩ := this
            exact ⟨_, st', rfl, e⟩

/-! ### the recorded history of an execution -/


/-- The history an observer records when every call is stamped exactly at its critical section. -/
def histOf (st : State) : Hist where
  regs := st.regs.map fun e => { l := e.l, s := e.s, ts := e.t, te := e.t }
  unregs := st.unregs.map fun e => { l := e.l, s := e.s, ts := e.t, te := e.t }
  pubs := (List.range st.log.length).filterMap fun i =>
    (st.log[i]?).map fun p => { s := p.s, idx := i, ts := p.t, te := p.t }
  recvs := st.recvs.map fun r => { l := r.l, idx := r.i, s := (st.subjOf r.i).getD 0, t := r.t }

theorem mem_histOf_pubs {st : State} {P : HPub} :
    P ∈ (histOf st).pubs ↔ ∃ p, st.log[P.idx]? = some p ∧ P = { s := p.s, idx := P.idx, ts := p.t, te := p.t } := by
  simp only [histOf, List.mem_filterMap, List.mem_range, Option.map_eq_some_iff]
  constructor
  · rintro ⟨i, _, p, hp, rfl⟩
    exact ⟨p, hp, rfl⟩
  · rintro ⟨p, hp, e⟩
    refine ⟨P.idx, ?_, p, hp, e.symm⟩
    rcases Nat.lt_or_ge P.idx st.log.length with g | g
    · exact g
    · rw [List.getElem?_eq_none g] at hp; cases hp

theorem pairwise_mem_cases {α : Type} {R : α → α → Prop} {l : List α} (h : l.Pairwise R) {x y : α}
    (hx : x ∈ l) (hy : y ∈ l) : x = y ∨ R x y ∨ R y x := by
  induction l with
  | nil => cases hx
  | cons a l ih =>
    rw [List.pairwise_cons] at h
    simp only [List.mem_cons] at hx hy
    rcases hx with rfl | hx <;> rcases hy with rfl | hy
    · left; rfl
    · right; left; exact h.1 y hy
    · right; right; exact h.1 x hx
    · exact ih h.2 hx hy

theorem log_mono {st : State} (t : TM st) {i j : Nat} {p q : PubEv} (hp : st.log[i]? = some p)
    (hq : st.log[j]? = some q) (hij : i < j) : p.t < q.t := by
  have := t.log_sorted
  rw [List.pairwise_iff_getElem] at this
  obtain ⟨hi, rfl⟩ := List.getElem?_eq_some_iff.mp hp
  obtain ⟨hj, rfl⟩ := List.getElem?_eq_some_iff.mp hq
  exact this i j hi hj hij


theorem okP_histOf {st : State} (h : Reach st) : okP (histOf st) = true := by
  have t := h.inv.tm
  simp only [okP, List.all_eq_true, Bool.and_eq_true, decide_eq_true_eq]
  intro P hP Q hQ
  obtain ⟨p, hp, eP⟩ := mem_histOf_pubs.mp hP
  obtain ⟨q, hq, eQ⟩ := mem_histOf_pubs.mp hQ
  refine ⟨?_, ?_⟩
  · intro e
    rw [e, hq] at hp; cases hp
    rw [eP, eQ, e]
  · intro hlt
    rw [eP, eQ] at hlt
    simp only at hlt
    rcases Nat.lt_trichotomy P.idx Q.idx with g | g | g
    · exact g
    · rw [g, hq] at hp; cases hp; omega
    · have := log_mono t hq hp g; omega

theorem recv_pub {st : State} (h : Reach st) {r : RecvEv} (hr : r ∈ st.recvs) :
    ∃ p, st.log[r.i]? = some p ∧ p.t < r.t ∧ (st.subjOf r.i).getD 0 = p.s := by
  obtain ⟨p, R, a, b, _⟩ := h.inv.rg.recv_reg r hr
  exact ⟨p, a, b, by simp [State.subjOf, a]⟩

theorem okA_histOf {st : State} (h : Reach st) : okA (histOf st) = true := by
  simp only [okA, List.all_eq_true, List.any_eq_true, Bool.and_eq_true, decide_eq_true_eq]
  intro r' hr'
  simp only [histOf, List.mem_map] at hr'
  obtain ⟨r, hr, rfl⟩ := hr'
  obtain ⟨p, a, b, c⟩ := recv_pub h hr
  refine ⟨{ s := p.s, idx := r.i, ts := p.t, te := p.t }, mem_histOf_pubs.mpr ⟨p, a, rfl⟩, ⟨rfl, ?_⟩, b⟩
  exact c.symm

theorem okB_histOf {st : State} (h : Reach st) : okB (histOf st) = true := by
  simp only [okB, justified, List.all_eq_true, List.any_eq_true, Bool.and_eq_true, decide_eq_true_eq]
  intro r' hr' P hP e
  simp only [histOf, List.mem_map] at hr'
  obtain ⟨r, hr, rfl⟩ := hr'
  obtain ⟨p0, hp0, eP⟩ := mem_histOf_pubs.mp hP
  obtain ⟨p, R, a, b, c, d, e1, f, g⟩ := h.inv.rg.recv_reg r hr
  simp only at e
  rw [e, a] at hp0; cases hp0
  refine ⟨{ l := R.l, s := R.s, ts := R.t, te := R.t }, ?_, ⟨⟨⟨d, ?_⟩, f⟩, ?_⟩⟩
  · simp only [histOf, List.mem_map]; exact ⟨R, c, rfl⟩
  · simp [State.subjOf, a, e1]
  · intro U' hU'
    simp only [histOf, List.mem_map] at hU'
    obtain ⟨U, hU, rfl⟩ := hU'
    simp only [decide_eq_true_eq]
    rintro ⟨u1, u2, u3⟩
    rw [eP]
    simp only
    refine g U hU (u1.trans d.symm) ?_ u3
    rw [u2]; simp [State.subjOf, a, e1]

theorem okC_histOf {st : State} (h : Reach st) : okC (histOf st) = true := by
  have nd := h.inv.nd
  unfold ND at nd
  simp only [okC, List.all_eq_true, decide_eq_true_eq]
  intro a ha b hb
  simp only [histOf, List.mem_map] at ha hb
  obtain ⟨r, hr, rfl⟩ := ha
  obtain ⟨r', hr', rfl⟩ := hb
  rintro ⟨e1, e2⟩
  simp only at e1 e2
  rcases pairwise_mem_cases nd hr hr' with g | g | g
  · rw [g]
  · exact absurd ⟨e1, e2⟩ g
  · exact absurd ⟨e1.symm, e2.symm⟩ g

theorem okD_histOf {st : State} (h : Reach st) : okD (histOf st) = true := by
  have od : OD st := h.inv.od
  unfold OD at od
  have ts := h.inv.tm.recvs_sorted
  have both := od.and ts
  simp only [okD, List.all_eq_true, decide_eq_true_eq]
  intro a ha b hb
  simp only [histOf, List.mem_map] at ha hb
  obtain ⟨r, hr, rfl⟩ := ha
  obtain ⟨r', hr', rfl⟩ := hb
  rintro ⟨e1, e2, e3⟩
  simp only at e1 e2 e3 ⊢
  obtain ⟨p, a1, _, c1⟩ := recv_pub h hr
  obtain ⟨p', a2, _, c2⟩ := recv_pub h hr'
  have hsub : st.subjOf r.i = st.subjOf r'.i := by
    rw [c1, c2] at e2
    simp [State.subjOf, a1, a2, e2]
  rcases pairwise_mem_cases both hr hr' with g | g | g
  · rw [g] at e3; omega
  · exact g.1 e1 hsub
  · have := g.2; omega

theorem okE_histOf {st : State} (h : Reach st) (hq : Quiescent st) (hd : st.dropped = false) :
    okE (histOf st) = true := by
  simp only [okE, stays, List.all_eq_true, List.any_eq_true, Bool.or_eq_true, Bool.not_eq_true',
    Bool.and_eq_true, decide_eq_true_eq]
  intro R' hR'
  simp only [histOf, List.mem_map] at hR'
  obtain ⟨R, hR, rfl⟩ := hR'
  by_cases hS : Stays st R
  · right
    intro P hP
    obtain ⟨p, hp, eP⟩ := mem_histOf_pubs.mp hP
    rw [eP]
    simp only
    rintro ⟨e1, e2⟩
    have := C20_delivery_partial h hq hd hR hS hp e1 e2
    obtain ⟨r, hr, f1, f2⟩ := mem_received.mp this
    refine ⟨{ l := r.l, idx := r.i, s := (st.subjOf r.i).getD 0, t := r.t }, ?_, f1, f2⟩
    simp only [histOf, List.mem_map]; exact ⟨r, hr, rfl⟩
  · left
    rw [← Bool.not_eq_true, List.all_eq_true]
    intro hall
    apply hS
    intro U hU e1 e2
    have := hall { l := U.l, s := U.s, ts := U.t, te := U.t } (by simp only [histOf, List.mem_map]; exact ⟨U, hU, rfl⟩)
    simp only [decide_eq_true_eq] at this
    exact this ⟨e1, e2⟩

/-- Every execution is admitted by the spec; `complete` may be claimed for quiescent states in which no
message was dropped at a full channel. -/
theorem C20_admits {st : State} (h : Reach st) (complete : Bool)
    (hc : complete = true → Quiescent st ∧ st.dropped = false) : admits (histOf st) complete = true := by
  simp only [admits, admitsSafe, Bool.and_eq_true, Bool.or_eq_true, Bool.not_eq_true']
  refine ⟨⟨⟨⟨⟨okP_histOf h, okA_histOf h⟩, okB_histOf h⟩, okC_histOf h⟩, okD_histOf h⟩, ?_⟩
  cases complete with
  | false => left; rfl
  | true => right; exact okE_histOf h (hc rfl).1 (hc rfl).2


/-! ### `admits` is monotone under widening of the call intervals -/

/-- Replaces the exact times of the calls by intervals around them (start no later, end no earlier). -/
structure Widening where
  reg : HCall → HCall
  unreg : HCall → HCall
  pub : HPub → HPub
  reg_ok : ∀ a, (reg a).l = a.l ∧ (reg a).s = a.s ∧ (reg a).ts ≤ a.ts ∧ a.te ≤ (reg a).te
  unreg_ok : ∀ a, (unreg a).l = a.l ∧ (unreg a).s = a.s ∧ (unreg a).ts ≤ a.ts ∧ a.te ≤ (unreg a).te
  pub_ok : ∀ a, (pub a).s = a.s ∧ (pub a).idx = a.idx ∧ (pub a).ts ≤ a.ts ∧ a.te ≤ (pub a).te

def Widening.apply (w : Widening) (h : Hist) : Hist where
  regs := h.regs.map w.reg
  unregs := h.unregs.map w.unreg
  pubs := h.pubs.map w.pub
  recvs := h.recvs

theorem okP_widen (w : Widening) (h : Hist) (ok : okP h = true) : okP (w.apply h) = true := by
  simp only [okP, List.all_eq_true, Bool.and_eq_true, decide_eq_true_eq] at ok ⊢
  intro P' hP' Q' hQ'
  simp only [Widening.apply, List.mem_map] at hP' hQ'
  obtain ⟨P, hP, rfl⟩ := hP'
  obtain ⟨Q, hQ, rfl⟩ := hQ'
  have a := w.pub_ok P
  have b := w.pub_ok Q
  obtain ⟨o1, o2⟩ := ok P hP Q hQ
  refine ⟨?_, ?_⟩
  · intro e
    rw [a.2.1, b.2.1] at e
    rw [o1 e]
  · intro e
    rw [a.2.1, b.2.1]
    apply o2
    omega

theorem okA_widen (w : Widening) (h : Hist) (ok : okA h = true) : okA (w.apply h) = true := by
  simp only [okA, List.all_eq_true, List.any_eq_true, Bool.and_eq_true, decide_eq_true_eq] at ok ⊢
  intro r hr
  obtain ⟨P, hP, ⟨e1, e2⟩, e3⟩ := ok r hr
  have a := w.pub_ok P
  refine ⟨w.pub P, ?_, ⟨?_, ?_⟩, ?_⟩
  · simp only [Widening.apply, List.mem_map]; exact ⟨P, hP, rfl⟩
  · rw [a.2.1]; exact e1
  · rw [a.1]; exact e2
  · omega

theorem okB_widen (w : Widening) (h : Hist) (ok : okB h = true) : okB (w.apply h) = true := by
  simp only [okB, justified, List.all_eq_true, List.any_eq_true, Bool.and_eq_true, decide_eq_true_eq] at ok ⊢
  intro r hr P' hP' e
  simp only [Widening.apply, List.mem_map] at hP'
  obtain ⟨P, hP, rfl⟩ := hP'
  have a := w.pub_ok P
  rw [a.2.1] at e
  obtain ⟨R, hR, ⟨⟨e1, e2⟩, e3⟩, e4⟩ := ok r hr P hP e
  have b := w.reg_ok R
  refine ⟨w.reg R, ?_, ⟨⟨?_, ?_⟩, ?_⟩, ?_⟩
  · simp only [Widening.apply, List.mem_map]; exact ⟨R, hR, rfl⟩
  · rw [b.1]; exact e1
  · rw [b.2.1]; exact e2
  · omega
  · intro U' hU'
    simp only [Widening.apply, List.mem_map] at hU'
    obtain ⟨U, hU, rfl⟩ := hU'
    have c := w.unreg_ok U
    have := e4 U hU
    try simp only [decide_eq_true_eq] at this
    try simp only [decide_eq_true_eq]
    rintro ⟨u1, u2, u3⟩
    have := this ⟨by rw [← c.1]; exact u1, by rw [← c.2.1]; exact u2, by omega⟩
    omega

theorem okE_widen (w : Widening) (h : Hist) (ok : okE h = true) : okE (w.apply h) = true := by
  simp only [okE, stays, List.all_eq_true, List.any_eq_true, Bool.or_eq_true, Bool.not_eq_true',
    Bool.and_eq_true, decide_eq_true_eq] at ok ⊢
  intro R' hR'
  simp only [Widening.apply, List.mem_map] at hR'
  obtain ⟨R, hR, rfl⟩ := hR'
  have b := w.reg_ok R
  rcases ok R hR with g | g
  · left
    rw [← Bool.not_eq_true, List.all_eq_true] at g ⊢
    intro hall
    apply g
    intro U hU
    have c := w.unreg_ok U
    have := hall (w.unreg U) (by simp only [Widening.apply, List.mem_map]; exact ⟨U, hU, rfl⟩)
    simp only [decide_eq_true_eq] at this ⊢
    rintro ⟨u1, u2⟩
    have := this ⟨by rw [c.1, b.1]; exact u1, by rw [c.2.1, b.2.1]; exact u2⟩
    omega
  · right
    intro P' hP'
    simp only [Widening.apply, List.mem_map] at hP'
    obtain ⟨P, hP, rfl⟩ := hP'
    have a := w.pub_ok P
    rintro ⟨e1, e2⟩
    obtain ⟨r, hr, f1, f2⟩ := g P hP ⟨by rw [← a.1, e1, b.2.1], by omega⟩
    exact ⟨r, hr, by rw [b.1]; exact f1, by rw [a.2.1]; exact f2⟩

/-- Evaluating `admits` with timestamps taken *around* the calls is sound: if the history with the exact
times of the critical sections is admitted, so is every widening of it. -/
theorem C20_admits_widen (w : Widening) (h : Hist) (c : Bool) (ok : admits h c = true) :
    admits (w.apply h) c = true := by
  simp only [admits, admitsSafe, Bool.and_eq_true, Bool.or_eq_true, Bool.not_eq_true'] at ok ⊢
  obtain ⟨⟨⟨⟨⟨p, a⟩, b⟩, cc⟩, d⟩, e⟩ := ok
  refine ⟨⟨⟨⟨⟨okP_widen w h p, okA_widen w h a⟩, okB_widen w h b⟩, cc⟩, d⟩, ?_⟩
  rcases e with e | e
  · left; exact e
  · right; exact okE_widen w h e


/-- What the harness records: the exact history seen through arbitrary intervals around the calls. -/
theorem C20_admits_recorded {st : State} (h : Reach st) (complete : Bool)
    (hc : complete = true → Quiescent st ∧ st.dropped = false) (w : Widening) :
    admits (w.apply (histOf st)) complete = true :=
  C20_admits_widen w _ _ (C20_admits h complete hc)

/-! ### witnesses and non-vacuity -/

instance (st : State) : Decidable (Quiescent st) := by unfold Quiescent; infer_instance
instance (st : State) (R : CallEv) : Decidable (Stays st R) := by unfold Stays; infer_instance

theorem reach_of_acts (as : List Act) (h : (runActs State.init as).isSome = true) :
    Reach ((runActs State.init as).getD State.init) := by
  cases e : runActs State.init as with
  | none => rw [e] at h; cases h
  | some st => exact Reach.init.runActs e

/-- two listeners on subject 0, listener 1 also on subject 5; three publications; everything delivered -/
def demoActs : List Act :=
  [.register 1 0, .register 2 0, .register 1 5, .publish 0, .publish 5, .dispatch, .send, .take 0, .snap 0,
   .pick 0 1, .call 0, .pick 0 2, .call 0, .finish 0, .publish 0, .dispatch, .send, .dispatch, .send, .take 0,
   .snap 0, .pick 0 2, .call 0, .pick 0 1, .call 0, .finish 0, .take 1, .snap 1, .pick 1 1, .call 1, .finish 1]

def demoState : State := (runActs State.init demoActs).getD State.init

theorem demo_reach : Reach demoState := reach_of_acts demoActs (by decide)

example : demoState.received 1 = [0, 2, 1] ∧ demoState.received 2 = [0, 2] ∧ demoState.stale = 0 ∧
    demoState.dropped = false ∧ demoState.receivedOn 1 0 = [0, 2] ∧ demoState.receivedOn 1 5 = [1] := by decide
example : (demoState.received 1).Nodup := C20_no_duplicates demo_reach 1
example : (demoState.receivedOn 1 0).Pairwise (· < ·) := C20_order demo_reach 1 0
example : demoState.receivedOn 2 5 = [] := C20_other_subjects demo_reach 2 5 (by decide)
example : Quiescent demoState := by decide
example : ∃ R, R ∈ demoState.regs ∧ Stays demoState R ∧ R.l = 2 ∧
    ∃ (i : Nat) (p : PubEv), demoState.log[i]? = some p ∧ p.s = R.s ∧ R.t < p.t :=
  ⟨{ l := 2, s := 0, t := 1 }, by decide, by decide, rfl, 0, { s := 0, t := 3 }, by decide⟩
example : admits (histOf demoState) true = true := C20_admits demo_reach true (fun _ => by decide)
example : (histOf demoState).recvs.length = 5 ∧ (histOf demoState).pubs.length = 3 := by decide

/-- unregister, then a later publication: `C20_nothing_after_unregister` applies to a non-trivial state -/
def leaveActs : List Act :=
  [.register 1 0, .register 2 0, .publish 0, .dispatch, .send, .take 0, .snap 0, .pick 0 1, .call 0, .pick 0 2,
   .call 0, .finish 0, .unregister 1 0, .publish 0, .dispatch, .send, .take 0, .snap 0, .pick 0 2, .call 0, .finish 0]

def leaveState : State := (runActs State.init leaveActs).getD State.init
theorem leave_reach : Reach leaveState := reach_of_acts leaveActs (by decide)
example : leaveState.received 1 = [0] ∧ leaveState.received 2 = [0, 1] ∧
    (∃ U, U ∈ leaveState.unregs ∧ U.l = 1 ∧ (∀ R, R ∈ leaveState.regs → R.l = U.l → R.s = U.s → R.t < U.t) ∧
      ∃ p : PubEv, leaveState.log[1]? = some p ∧ p.s = U.s ∧ U.t < p.t) :=
  ⟨by decide, by decide, { l := 1, s := 0, t := 5 }, by decide, by decide, by decide, { s := 0, t := 6 }, by decide⟩

/-- The callback for message 0 is chosen and not yet entered; the listener leaves (the subscriber is closed) and
joins again (a new subscriber is made); message 1 is published and sent to both channels. -/
def rejoinActs : List Act :=
  [.register 1 0, .publish 0, .dispatch, .send, .take 0, .snap 0, .pick 0 1,
   .unregister 1 0, .register 1 0, .publish 0, .dispatch, .send, .send]

def rejoinState : State := (runActs State.init rejoinActs).getD State.init
theorem rejoin_reach : Reach rejoinState := reach_of_acts rejoinActs (by decide)

/-- The new subscriber cannot overtake the pending callback of the closed one: it takes nothing before the
closed one has finished (in the code before commit f4b47ff `take 1` was enabled here and the listener received
message 1 before message 0). -/
theorem C20_new_subscriber_waits :
    (rejoinState.sub 0).pending = some 1 ∧ (rejoinState.sub 1).chan = [1] ∧
    (step rejoinState (.take 1)).isNone = true ∧
    ((runActs rejoinState [.call 0, .finish 0, .take 0, .snap 0, .finish 0, .exit 0, .take 1, .snap 1, .pick 1 1,
      .call 1, .finish 1]).map fun st => (st.received 1, st.stale)) = some ([0, 1], 1) := by decide

example : (rejoinState.receivedOn 1 0).Pairwise (· < ·) := C20_order rejoin_reach 1 0

/-- A message published after the registration completed and before the unregistration began, still in
`incoming` when the listener unregisters, is never delivered to it. -/
def lostActs : List Act :=
  [.register 1 0, .publish 0, .unregister 1 0, .dispatch, .send, .take 0, .snap 0, .finish 0, .exit 0]

def lostState : State := (runActs State.init lostActs).getD State.init

theorem C20_delivery_counterexample :
    Reach lostState ∧ Quiescent lostState ∧ lostState.dropped = false ∧
    (∃ R U p, R ∈ lostState.regs ∧ U ∈ lostState.unregs ∧ lostState.log[0]? = some p ∧
      R.l = 1 ∧ U.l = 1 ∧ R.s = p.s ∧ U.s = p.s ∧ R.t < p.t ∧ p.t < U.t) ∧
    lostState.received 1 = [] :=
  ⟨reach_of_acts lostActs (by decide), by decide, by decide,
    ⟨{ l := 1, s := 0, t := 0 }, { l := 1, s := 0, t := 2 }, { s := 0, t := 1 }, by decide⟩, by decide⟩

/-- Below the bound nothing is lost; at the bound the dispatcher drops instead of waiting (`dropped`). -/
example : ∃ st, Reach st ∧ st.dropped = true ∧ st.disp = chanCap + 2 :=
  ⟨(runActs State.init ([Act.register 1 0] ++ (List.replicate (chanCap + 2) (Act.publish 0)) ++
      [.dispatch, .send, .take 0] ++ (List.replicate (chanCap + 1) [Act.dispatch, Act.send]).flatten)).getD State.init,
    reach_of_acts _ (by decide), by decide, by decide⟩

end SigModel.Bus
