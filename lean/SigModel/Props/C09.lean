/-
C09 — No publisher or subscriber outlives the session, room stay or call that owns it.

Theorems about the small-step model of `Model/Mcu.lean` (critical sections of
clientsession.go around `mcu.NewPublisher` / `mcu.NewSubscriber`), for **every
interleaving** of the actions and **every outcome** of the media-server calls
(`Reachable cfg st` quantifies over arbitrary action lists).

The model is parametrised by a `Cfg`; `codeCfg` is computed from facts extracted
from the current source (`Generated/Mcu.lean`).  Theorems named `…_code` are about
`codeCfg` and only compile while the source has the shape the model stands for.
-/
import SigModel.Lemmas.Mcu
import SigModel.Lemmas.McuExits

namespace SigModel.Mcu
open SigModel.Generated.Mcu

/-! ## 0. What the source says (regenerated on every run) -/

/-- `GetOrCreatePublisher` / `GetOrCreateSubscriber` have the lock / snapshot /
create / re-check / store order the repaired model stands for, the generation
check refuses closed sessions and changed generations, and `releaseMcuObjects`
bumps the generation before anything else. -/
theorem C09_code_rechecks : codeCfg.recheckPub = true ∧ codeCfg.recheckSub = true := by decide

/-- Exactly the three release sites of the model exist (`leaveCall`, `leaveRoom`,
`closeRelease`), both maps are dropped by a release, and leaving needs a room. -/
theorem C09_code_release_sites :
    releasers = ["LeaveCall", "closeAndWait", "doLeaveRoom"] ∧
    releaseClears = ["publishers", "subscribers"] ∧
    leaveCallNeedsRoom = true ∧ leaveRoomNeedsRoom = true := by decide

/-- The model's two stream types are the ones the media server accepts, and the
revocation sweep looks at every one of them. -/
theorem C09_code_streams :
    publishableStreams = [Stream.video.name, Stream.screen.name] ∧
    janusRejectsOtherStreams = true ∧
    (∀ t ∈ publishableStreams, t ∈ sweepStreams) := by decide

/-- The Janus client destroys a publisher's room on `Close()` and when joining the
freshly created room failed, detaches subscriber handles on `Close()`, and tells
the owner (`PublisherClosed` / `SubscriberClosed`) — the shape behind the model's
"`Close()` closes" and "a failed creation opens nothing" (observed against the
repository's test gateway by the harness ops `janus` and `janustimeout`). -/
theorem C09_code_janus_cleanup :
    janusPublisherCloseDestroysRoom = true ∧ janusSubscriberCloseDetaches = true ∧
    janusJoinFailureDestroysRoom = true := by decide

/-- An old-style session (no permissions from the backend yet) may publish everything. -/
theorem C09_code_oldstyle : Perms.oldStyle = { media := true, audio := true, video := true, screen := true } := by
  decide

/-- Every statement of the package that takes sessions out of a room's in-call set is
followed by `LeaveCall()` for each client session it removes — in particular the
reset of the whole set in `PublishUsersInCallChangedAll` ("the call ended for
everybody") feeds *every member of the set* to `LeaveCall()`, whatever its client
type; the functions that end a room stay or a session (bye, expiry, anonymous
timeout, room deleted, room-session reconnect, `CloseAfterSend`, asynchronous
bye) call `LeaveRoom` / `Close` on it; the room pointer is only cleared and the
context only cancelled by functions that release the media objects. -/
theorem C09_code_exits :
    codeCfg.inCallExits = true ∧ codeCfg.hubExits = true ∧
    inCallRemovals = expectedInCallRemovals ∧ exitCalls = expectedExitCalls ∧
    (∀ f ∈ roomClearSites, f ∈ releasers) ∧ (∀ f ∈ cancelSites, f ∈ releasers) := by decide

/-! ## 1. The invariant holds in every reachable state -/

theorem reachable_step {cfg : Cfg} {st : State} (h : Reachable cfg st) (a : Action) :
    Reachable cfg (step cfg st a) := by
  obtain ⟨acts, rfl⟩ := h
  exact ⟨acts ++ [a], by simp [run, List.foldl_append]⟩

theorem reachable_run {cfg : Cfg} {st : State} (h : Reachable cfg st) (acts : List Action) :
    Reachable cfg (run cfg st acts) := by
  induction acts generalizing st with
  | nil => exact h
  | cons a as ih => exact ih (reachable_step h a)

theorem owned_init : Owned State.init := by
  intro o hmem; simp [State.init] at hmem

theorem permOk_init (sc : Kind → Bool) : PermOk sc State.init := by
  intro o hmem; simp [State.init] at hmem

/-- Invariant of every interleaving: ids are unique and the maps are consistent;
every open object is either handed to a closing goroutine or tracked by its live
owner with the current generation; tracked objects in scope are permitted once
the pending revocation goroutines have run. -/
theorem C09_invariant (cfg : Cfg) (hp : cfg.recheckPub = true) (hs : cfg.recheckSub = true)
    (sc : Kind → Bool) (hsc : cfg.sweepEarly = false ∨ sc (.pub .screen) = false)
    (st : State) (hr : Reachable cfg st) : IdsOk st ∧ Owned st ∧ PermOk sc st := by
  obtain ⟨acts, rfl⟩ := hr
  suffices h : ∀ st0, (IdsOk st0 ∧ Owned st0 ∧ PermOk sc st0) →
      IdsOk (run cfg st0 acts) ∧ Owned (run cfg st0 acts) ∧ PermOk sc (run cfg st0 acts) from
    h _ ⟨idsOk_init, owned_init, permOk_init sc⟩
  induction acts with
  | nil => intro st0 h; exact h
  | cons a as ih =>
    intro st0 ⟨h1, h2, h3⟩
    exact ih _ ⟨idsOk_step cfg h1 a, owned_step cfg hp hs h2 a, permOk_step cfg hp hsc h1 h3 a⟩

/-! ## 2. No orphan -/

/-- **C09_no_orphan**, for the repaired behaviour (`recheckPub`, `recheckSub`,
complete sweep): in every quiescent state reachable by any interleaving and any
media-server outcomes, every open object is entitled — its owner is live, has not
left its room or call nor been closed since the request started, still has the
permission, and refers to the object. -/
theorem C09_no_orphan (cfg : Cfg) (hp : cfg.recheckPub = true) (hs : cfg.recheckSub = true)
    (hsw : cfg.sweepEarly = false)
    (st : State) (hr : Reachable cfg st) (hq : Quiescent st) :
    ∀ o ∈ st.objs, o.isOpen = true → Entitled st o := by
  obtain ⟨_, hown, hperm⟩ := C09_invariant cfg hp hs (fun _ => true) (Or.inl hsw) st hr
  obtain ⟨_, hcl, hall⟩ := hq
  intro o hmem hopen
  rcases hown o hmem hopen with h | h
  · rw [hcl] at h; cases h
  · obtain ⟨hs0, hnl, hnr⟩ := hall o.owner
    have h0 : (st.sess o.owner).closed = false := by
      cases hc : (st.sess o.owner).closed with
      | false => rfl
      | true => have := h.1 hc; omega
    exact ⟨h0, h.2.1, hperm o hmem hopen h.mapped hs0 rfl, h.2.2⟩

/-- The scope in which the current code's revocation is complete. -/
def codeScope : Kind → Bool :=
  fun k => if sweepReturnsEarly then (match k with | .pub .screen => false | _ => true) else true

/-- **For the code as it is now** (`codeCfg`): at quiescence every open object is
owned by a live session that has not left its room / call nor been closed since
the request started and that refers to it; and it is covered by the owner's
permissions — for screen publishers only if the revocation goroutine does not
return early (`sweepReturnsEarly = false`, C08's finding; see
`C09_early_sweep_orphan`). -/
theorem C09_no_orphan_code (st : State) (hr : Reachable codeCfg st) (hq : Quiescent st) :
    ∀ o ∈ st.objs, o.isOpen = true →
      (st.sess o.owner).closed = false ∧ o.stamp = (st.sess o.owner).epoch ∧
      (st.sess o.owner).objs o.kind = some o.id ∧
      (codeScope o.kind = true → permitted (st.sess o.owner).perms o.kind o.media = true) := by
  have hsc : codeCfg.sweepEarly = false ∨ codeScope (.pub .screen) = false := by
    unfold codeScope codeCfg
    cases sweepReturnsEarly <;> simp
  obtain ⟨_, hown, hperm⟩ := C09_invariant codeCfg C09_code_rechecks.1 C09_code_rechecks.2 codeScope hsc st hr
  obtain ⟨_, hcl, hall⟩ := hq
  intro o hmem hopen
  rcases hown o hmem hopen with h | h
  · rw [hcl] at h; cases h
  · obtain ⟨hs0, hnl, hnr⟩ := hall o.owner
    have h0 : (st.sess o.owner).closed = false := by
      cases hc : (st.sess o.owner).closed with
      | false => rfl
      | true => have := h.1 hc; omega
    exact ⟨h0, h.2.1, h.2.2, hperm o hmem hopen h.mapped hs0⟩

/-- Once the sweep is complete in the source, the full statement holds for the code. -/
theorem C09_no_orphan_code_full (hsw : sweepReturnsEarly = false)
    (st : State) (hr : Reachable codeCfg st) (hq : Quiescent st) :
    ∀ o ∈ st.objs, o.isOpen = true → Entitled st o :=
  C09_no_orphan codeCfg C09_code_rechecks.1 C09_code_rechecks.2 hsw st hr hq

/-- A creation that completes after the owner is gone (closed, or left its room /
call since the request started) is handed to a closing goroutine and never enters
the owner's maps. -/
theorem C09_late_creation_closed (cfg : Cfg) (hp : cfg.recheckPub = true) (hs : cfg.recheckSub = true)
    (st : State) (p : Pending) (hfind : findPend st.pend p.id = some p)
    (hgone : (st.sess p.owner).closed = true ∨ (st.sess p.owner).epoch ≠ p.stamp) :
    let st' := step cfg st (.createEnd p.id .ok)
    p.id ∈ st'.closing ∧ st'.sess = st.sess := by
  have hre : recheckOk cfg st p = false := by
    unfold recheckOk
    cases hk : p.kind with
    | pub t =>
      simp only [hp]
      rcases hgone with h | h
      · simp [h]
      · simp [h]
    | sub q t =>
      simp only [hs]
      rcases hgone with h | h
      · simp [h]
      · simp [h]
  simp only [step, hfind, createEndOk, hre, Bool.false_and]
  simp

/-! ## 3. At most one publisher per session and stream type -/

/-- **C09_single_publisher**: in every reachable state two open objects of the
same session and key (publisher: stream type; subscriber: publisher session and
stream type) that are not already handed to a closing goroutine are the same
object.  At quiescence (`closing = []`) there is hence at most one open object per
session and key. -/
theorem C09_single_publisher (cfg : Cfg) (hp : cfg.recheckPub = true) (hs : cfg.recheckSub = true)
    (st : State) (hr : Reachable cfg st) (o₁ o₂ : Obj) (h₁ : o₁ ∈ st.objs) (h₂ : o₂ ∈ st.objs)
    (ho₁ : o₁.isOpen = true) (ho₂ : o₂.isOpen = true)
    (hc₁ : o₁.id ∉ st.closing) (hc₂ : o₂.id ∉ st.closing)
    (hown : o₁.owner = o₂.owner) (hkind : o₁.kind = o₂.kind) : o₁ = o₂ := by
  obtain ⟨hi, hown', _⟩ := C09_invariant cfg hp hs (fun _ => false) (Or.inr rfl) st hr
  have t₁ : Tracked st o₁ := (hown' o₁ h₁ ho₁).resolve_left hc₁
  have t₂ : Tracked st o₂ := (hown' o₂ h₂ ho₂).resolve_left hc₂
  have e₁ := t₁.2.2
  have e₂ := t₂.2.2
  rw [hown, hkind, e₂] at e₁
  exact eq_of_id_eq hi.obj_nodup h₁ h₂ (Option.some.inj e₁).symm

theorem C09_single_publisher_code (st : State) (hr : Reachable codeCfg st) (hq : Quiescent st)
    (o₁ o₂ : Obj) (h₁ : o₁ ∈ st.objs) (h₂ : o₂ ∈ st.objs)
    (ho₁ : o₁.isOpen = true) (ho₂ : o₂.isOpen = true)
    (hown : o₁.owner = o₂.owner) (hkind : o₁.kind = o₂.kind) : o₁ = o₂ := by
  have hcl := hq.2.1
  exact C09_single_publisher codeCfg C09_code_rechecks.1 C09_code_rechecks.2 st hr o₁ o₂ h₁ h₂ ho₁ ho₂
    (by rw [hcl]; simp) (by rw [hcl]; simp) hown hkind

/-- The loser of a creation race: when the owner already has an object for the key,
the newly created one is handed to a closing goroutine and the map keeps the
first one. -/
theorem C09_race_loser_closed (cfg : Cfg) (st : State) (p : Pending) (k : Nat)
    (hfind : findPend st.pend p.id = some p) (hhave : (st.sess p.owner).objs p.kind = some k) :
    let st' := step cfg st (.createEnd p.id .ok)
    p.id ∈ st'.closing ∧ st'.sess = st.sess := by
  simp only [step, hfind, createEndOk, hhave, Option.isNone_some, Bool.and_false]
  simp

/-- A closing goroutine closes its object and leaves the set of pending closes. -/
theorem C09_doClose_closes (cfg : Cfg) (st : State) (k : Nat) :
    let st' := step cfg st (.doClose k)
    k ∉ st'.closing ∧ ∀ o ∈ st'.objs, o.id = k → o.isOpen = false := by
  simp only [step]
  constructor
  · intro h
    have := (List.mem_filter.mp h).2
    simp at this
  · intro o hmem hid
    obtain ⟨o', _, hid', _, _, _, _, hcase⟩ := mem_closeObj hmem
    rcases hcase with ⟨_, h⟩ | ⟨hne, _⟩
    · exact h
    · exact absurd (hid' ▸ hid) hne

/-! ## 4. The generation counts the releases -/

/-- No action ever lowers a session's generation … -/
theorem C09_epoch_monotone (cfg : Cfg) (st : State) (a : Action) (i : Nat) :
    (st.sess i).epoch ≤ ((step cfg st a).sess i).epoch := by
  have hrel : ∀ (st : State) (j : Nat), (st.sess i).epoch ≤ ((release st j).sess i).epoch := by
    intro st j
    by_cases h : i = j
    · subst h; rw [release_sess_same]; simp
    · rw [release_sess_ne _ _ _ h]; exact Nat.le_refl _
  have hupd : ∀ (st : State) (j : Nat) (f : Sess → Sess), (f (st.sess j)).epoch = (st.sess j).epoch →
      ((st.upd j f).sess i).epoch = (st.sess i).epoch := by
    intro st j f hf
    by_cases h : i = j
    · subst h; rw [upd_sess_same]; exact hf
    · rw [upd_sess_ne _ _ _ _ h]
  have hleave : ∀ (st : State) (j : Nat), (st.sess i).epoch ≤ ((leaveRoomStep st j).sess i).epoch := by
    intro st j
    unfold leaveRoomStep
    split
    · exact Nat.le_refl _
    · exact Nat.le_trans (Nat.le_of_eq (hupd st j _ rfl).symm) (hrel _ j)
  cases a with
  | join s r => simp only [step]; exact Nat.le_of_eq (hupd st s _ rfl).symm
  | inCallSet s b => simp only [step]; exact Nat.le_of_eq (hupd st s _ rfl).symm
  | setMeta s m => simp only [step]; exact Nat.le_of_eq (hupd st s _ rfl).symm
  | leaveCall s => simp only [step]; split; exact Nat.le_refl _; exact hrel st s
  | leaveRoom s => exact hleave st s
  | closeCancel s => simp only [step]; exact Nat.le_of_eq (hupd st s _ rfl).symm
  | closeLeave s =>
    simp only [step]; split
    · exact Nat.le_refl _
    · rw [hupd _ s _ rfl]; exact hleave st s
  | closeRelease s =>
    simp only [step]; split
    · exact Nat.le_refl _
    · rw [hupd _ s _ rfl]; exact hrel st s
  | setPerms s p => simp only [step]; exact Nat.le_of_eq (hupd st s _ rfl).symm
  | sweep s =>
    simp only [step]; split
    · exact Nat.le_refl _
    · have hr := sweepBody_rel cfg (st.upd s fun x => { x with sweeps := x.sweeps - 1 }) s
      by_cases h : i = s
      · subst h; rw [hr.epoch, upd_sess_same]; exact Nat.le_refl _
      · rw [hr.other _ h, upd_sess_ne _ _ _ _ h]; exact Nat.le_refl _
  | offerBegin s t m =>
    simp only [step]; split
    · exact Nat.le_refl _
    · split <;> exact Nat.le_refl _
  | subBegin s p t => simp only [step]; split <;> exact Nat.le_refl _
  | createEnd k o =>
    simp only [step]; split
    · exact Nat.le_refl _
    · rename_i p _
      cases o with
      | ok =>
        simp only [createEndOk]
        split
        · rw [hupd _ p.owner _ rfl]; exact Nat.le_refl _
        · exact Nat.le_refl _
      | fail => exact Nat.le_refl _
      | timeout => exact Nat.le_refl _
  | doClose k => exact Nat.le_refl _

theorem run_epoch_monotone (cfg : Cfg) (acts : List Action) (st : State) (i : Nat) :
    (st.sess i).epoch ≤ ((run cfg st acts).sess i).epoch := by
  induction acts generalizing st with
  | nil => exact Nat.le_refl _
  | cons a as ih => exact Nat.le_trans (C09_epoch_monotone cfg st a i) (ih (step cfg st a))

/-- Hence "stamp = generation" means what `Entitled` is meant to say: if the owner's
generation at the end of a run equals the one read when the request started, it
had that value at every point in between — no leave / close of the owner happened
since (each of them raises it, `C09_release_bumps`, `C09_close_bumps`). -/
theorem C09_no_release_between (cfg : Cfg) (st : State) (acts₁ acts₂ : List Action) (i : Nat)
    (h : ((run cfg st (acts₁ ++ acts₂)).sess i).epoch = (st.sess i).epoch) :
    ((run cfg st acts₁).sess i).epoch = (st.sess i).epoch := by
  have h1 := run_epoch_monotone cfg acts₁ st i
  have h2 := run_epoch_monotone cfg acts₂ (run cfg st acts₁) i
  have e : run cfg st (acts₁ ++ acts₂) = run cfg (run cfg st acts₁) acts₂ := by
    simp [run, List.foldl_append]
  rw [e] at h
  omega

/-- … and leaving a room, leaving a call and the release of `Close()` raise it:
an object whose stamp equals the owner's generation was requested after the
owner's last leave / close. -/
theorem C09_release_bumps (cfg : Cfg) (st : State) (s r : Nat) (hroom : (st.sess s).room = some r) :
    ((step cfg st (.leaveRoom s)).sess s).epoch = (st.sess s).epoch + 1 ∧
    ((step cfg st (.leaveCall s)).sess s).epoch = (st.sess s).epoch + 1 := by
  constructor
  · simp only [step, leaveRoomStep, hroom]
    rw [release_sess_same]; simp
  · simp only [step, hroom]
    rw [release_sess_same]

theorem C09_close_bumps (cfg : Cfg) (st : State) (s : Nat) (hpc : (st.sess s).needRelease ≠ 0) :
    ((step cfg st (.closeRelease s)).sess s).epoch = (st.sess s).epoch + 1 ∧
    ((step cfg st (.closeRelease s)).sess s).needRelease = (st.sess s).needRelease - 1 ∧
    ((step cfg st (.closeRelease s)).sess s).objs = fun _ => none := by
  simp only [step, hpc, if_false, upd_sess_same]
  rw [release_sess_same]
  simp

/-- Every `Close()` cancels the context first; from then on nothing is stored for the session. -/
theorem C09_closeCancel_closes (cfg : Cfg) (st : State) (s : Nat) :
    ((step cfg st (.closeCancel s)).sess s).closed = true := by
  simp [step]

/-- A request reads the owner's current generation. -/
theorem C09_stamp_at_begin (cfg : Cfg) (st : State) (s : Nat) (t : Stream) (m : Media)
    (hperm : permittedPub (st.sess s).perms t m = true) (hnone : (st.sess s).objs (.pub t) = none) :
    (step cfg st (.offerBegin s t m)).pend =
      st.pend ++ [{ id := st.nextId, owner := s, kind := .pub t, media := m, stamp := (st.sess s).epoch }] := by
  simp [step, hperm, hnone, beginCreate]

/-! ## 5. The harness ops are interleavings of the model's actions -/

theorem C09_exec_reachable (cfg : Cfg) (st : State) (hr : Reachable cfg st) (op : Op) :
    Reachable cfg (exec cfg st op).1 := by
  unfold exec drain
  exact reachable_run (reachable_run hr _) _

/-! ## 5b. Every way out releases

The harness ops are the events that make a session stop being in the call, in its
room, alive: its own leave / room switch, the backend's `incall` for one session
or for everybody, the internal client's own `incall` message, the room being
deleted, a disinvite reaching its connection, a reconnect with its room session id
(local and asynchronous), `bye`, the expiry after a lost connection, `Close()`. -/

theorem drain_neutral (st : State) : ∀ a ∈ st.closing.map Action.doClose, subject a = none := by
  intro a ha
  obtain ⟨k, _, rfl⟩ := List.mem_map.mp ha
  rfl

theorem core_exec (cfg : Cfg) (st : State) (op : Op) (s : Nat) :
    core ((exec cfg st op).1.sess s) = coreRun s (core (st.sess s)) (opActions cfg st op) := by
  unfold exec drain
  simp only []
  rw [core_run, core_run]
  -- the closing goroutines touch no session
  exact coreRun_neutral s _ (drain_neutral _) _

/-- **C09_leaving_releases**: for every harness op, from every state, for every session:
the generation never goes back, and if the op made the session stop being in the
call of its room, leave or change its room, or be closed, then its generation
moved, i.e. `releaseMcuObjects` ran for it inside the op (`C09_release_bumps`,
`C09_close_bumps`: nothing else moves the generation) — provided every removal from
the in-call set is followed by `LeaveCall()` (`C09_code_exits` for the source as it is). -/
theorem C09_leaving_releases (cfg : Cfg) (hc : cfg.inCallExits = true) (st : State) (op : Op) (s : Nat) :
    let x := st.sess s
    let x' := (exec cfg st op).1.sess s
    x.epoch ≤ x'.epoch ∧
    (x.room.isSome → x.inCall = true → x'.inCall = false → x.epoch < x'.epoch) ∧
    (x.room.isSome → x'.room ≠ x.room → x.epoch < x'.epoch) ∧
    (x.closed = false → x'.closed = true → x.epoch < x'.epoch) := by
  have hg : Good (core (st.sess s)) (core ((exec cfg st op).1.sess s)) := by
    rw [core_exec]
    exact goodBlocks_flatten _ (goodBlocks_op cfg hc st op) s _
  exact ⟨hg.mono, hg.call, hg.room, hg.close⟩

theorem C09_leaving_releases_code (st : State) (op : Op) (s : Nat) :
    let x := st.sess s
    let x' := (exec codeCfg st op).1.sess s
    x.epoch ≤ x'.epoch ∧
    (x.room.isSome → x.inCall = true → x'.inCall = false → x.epoch < x'.epoch) ∧
    (x.room.isSome → x'.room ≠ x.room → x.epoch < x'.epoch) ∧
    (x.closed = false → x'.closed = true → x.epoch < x'.epoch) :=
  C09_leaving_releases codeCfg C09_code_exits.1 st op s

/-- Hence, for the code as it is: once everything has settled after an op that took
session `s` out of its call, out of its room or out of life, every object of `s` that
is still open was requested after that — whatever `s` owned or was having created
before has been closed. -/
theorem C09_exit_closes (st : State) (hr : Reachable codeCfg st) (op : Op) (s : Nat)
    (hq : Quiescent (exec codeCfg st op).1)
    (hexit : let x := st.sess s
             let x' := (exec codeCfg st op).1.sess s
             (x.room.isSome ∧ x.inCall = true ∧ x'.inCall = false) ∨ (x.room.isSome ∧ x'.room ≠ x.room) ∨
             (x.closed = false ∧ x'.closed = true)) :
    ∀ o ∈ (exec codeCfg st op).1.objs, o.isOpen = true → o.owner = s → (st.sess s).epoch < o.stamp := by
  intro o hmem hopen howner
  have hst := (C09_no_orphan_code _ (C09_exec_reachable codeCfg st hr op) hq o hmem hopen).2.1
  have h := C09_leaving_releases_code st op s
  simp only [] at h hexit
  rw [hst, howner]
  rcases hexit with ⟨h1, h2, h3⟩ | ⟨h1, h2⟩ | ⟨h1, h2⟩
  · exact h.2.1 h1 h2 h3
  · exact h.2.2.1 h1 h2
  · exact h.2.2.2 h1 h2

/-- The ops that end a session do end it (as long as the functions behind them call
`Close` / `LeaveRoom`, `C09_code_exits`): `bye` and a disinvite on a connection, a
reconnect with the room session id, `Close()` itself, the expiry of a session whose
connection was lost — the session is closed afterwards; a deleted room has no
session left in it. -/
theorem C09_exit_ops_end (cfg : Cfg) (hh : cfg.hubExits = true) (st : State) (s : Nat) :
    ((exec cfg st (.close s)).1.sess s).closed = true ∧
    ((exec cfg st (.asyncBye s)).1.sess s).closed = true ∧
    ((st.sess s).room.isSome → (st.sess s).closed = false → ((exec cfg st (.kick s)).1.sess s).closed = true) ∧
    ((st.sess s).info.connected = true → ((exec cfg st (.bye s)).1.sess s).closed = true) ∧
    (∀ r, (st.sess s).info.connected = true → (st.sess s).room = some r →
      ((exec cfg st (.disinvite s r)).1.sess s).closed = true) ∧
    (∀ all, s ∈ all → (st.sess s).info.expiring = true → ((exec cfg st (.expire all)).1.sess s).closed = true) ∧
    (∀ all r, s ∈ all → (st.sess s).room = some r → ((exec cfg st (.delRoom r all)).1.sess s).room = none) := by
  have hclosed : ∀ op, Action.closeCancel s ∈ opActions cfg st op → ((exec cfg st op).1.sess s).closed = true := by
    intro op hmem
    have := core_exec cfg st op s
    have h2 := coreRun_closed s (opActions cfg st op) (core (st.sess s)) hmem
    rw [← this] at h2
    exact h2
  refine ⟨?_, ?_, ?_, ?_, ?_, ?_, ?_⟩
  · exact hclosed _ (by simp [opActions, opBlocks, closeActs])
  · exact hclosed _ (by simp [opActions, opBlocks, closeActs, hh])
  · intro hr hcl; exact hclosed _ (by simp [opActions, opBlocks, closeActs, hh, hr, hcl])
  · intro hcn; exact hclosed _ (by simp [opActions, opBlocks, closeActs, hh, hcn])
  · intro r hcn hr; exact hclosed _ (by simp [opActions, opBlocks, closeActs, hh, hcn, hr])
  · intro all hmem hexp
    apply hclosed
    simp only [opActions, opBlocks, hh, if_true, List.mem_flatten, List.mem_map, List.mem_filter]
    exact ⟨closeActs st s, ⟨s, ⟨hmem, by simpa using hexp⟩, rfl⟩, closeCancel_mem_closeActs st s⟩
  · intro all r hmem hr
    have := core_exec cfg st (.delRoom r all) s
    have h2 := coreRun_left s (opActions cfg st (.delRoom r all)) (core (st.sess s))
      (by
        intro a ha
        simp only [opActions, opBlocks, hh, if_true, List.mem_flatten, List.mem_map] at ha
        obtain ⟨b, ⟨x, _, rfl⟩, hab⟩ := ha
        simp at hab; subst hab; rfl)
      (by
        simp only [opActions, opBlocks, hh, if_true, List.mem_flatten, List.mem_map, roomMembers, List.mem_filter]
        exact ⟨[.leaveRoom s], ⟨s, ⟨hmem, by simp [hr]⟩, rfl⟩, by simp⟩)
    rw [← this] at h2
    exact h2

/-- Running ops one after the other. -/
def execs (cfg : Cfg) (st : State) (ops : List Op) : State := ops.foldl (fun st op => (exec cfg st op).1) st

private def featInternal : Meta := { ctype := .internal, feature := true, flags := 0 }

/-- An internal client (feature `internal-incall`) that put itself into the call with its
own `incall` message, published, and then the backend ends the call for everybody. -/
def incallAllWitness : List Op :=
  [.world [featInternal, {}, {}], .join 0 1, .intIncall 0 3, .offer 0 (some .video) { audio := true, video := true },
   .finish 1 .ok, .incallAll 1 false [0, 1, 2]]

/-- **If the "call ended for everybody" branch did not call `LeaveCall()` for every
member of the in-call set, the property would be false**: the session is out of the
call, nothing is in flight, and its publisher is open and still owned, with the
generation it was created under. -/
theorem C09_incall_all_without_leave_orphan :
    let cfg : Cfg := { recheckPub := true, recheckSub := true, sweepEarly := false, inCallExits := false }
    let st := execs cfg State.init incallAllWitness
    (st.sess 0).room = some 1 ∧ (st.sess 0).inCall = false ∧ st.pend = [] ∧ st.closing = [] ∧
    ∃ o ∈ st.objs, o.isOpen = true ∧ o.owner = 0 ∧ o.stamp = (st.sess 0).epoch := by
  decide

/-- The hypotheses of `C09_exit_closes` are satisfiable: the state before the last op
of the witness is reachable, the op takes session 0 out of the call, and the state
after it is quiescent. -/
example :
    let st := execs codeCfg State.init incallAllWitness.dropLast
    let st' := (exec codeCfg st (.incallAll 1 false [0, 1, 2])).1
    (st.sess 0).room.isSome ∧ (st.sess 0).inCall = true ∧ (st'.sess 0).inCall = false ∧
    st'.pend = [] ∧ st'.closing = [] ∧ (st.objs.filter (·.isOpen)).length = 1 := by decide

/-- The same ops with the code as it is: the publisher is closed. -/
theorem C09_incall_all_code_closes :
    let st := execs codeCfg State.init incallAllWitness
    (st.sess 0).inCall = false ∧ st.pend = [] ∧ st.closing = [] ∧ ∀ o ∈ st.objs, o.isOpen = false := by
  decide

/-! ## 6. Counter-examples: what the unrepaired behaviour allows -/

private def av : Media := { audio := true, video := true }

/-- The witness schedule of DESIGN §6 #6 (replayed on the pinned tree by the harness:
`join 0 1 · offer 1 0 video av · leave 0 · end 1 ok · state`). -/
def asIsWitness : List Action :=
  [.join 0 1, .offerBegin 0 .video av, .leaveRoom 0, .createEnd 1 .ok]

/-- **Without the re-check the property is false**: the publisher whose creation
completes after `LeaveRoom` is stored — the state is quiescent, the object is
open, and its owner has left the room it was created for (the generation moved). -/
theorem C09_asIs_orphan :
    let st := run Cfg.asIs State.init asIsWitness
    Quiescent st ∧ ∃ o ∈ st.objs, o.isOpen = true ∧ o.stamp ≠ (st.sess o.owner).epoch ∧ ¬ Entitled st o := by
  refine ⟨⟨by decide, by decide, ?_⟩, ?_⟩
  · intro i
    by_cases h : i = 0
    · subst h; decide
    · simp [run, asIsWitness, step, State.upd, leaveRoomStep, release, beginCreate, createEndOk, findPend,
        recheckOk, Cfg.asIs, State.init, Sess.init, h, permittedPub, C09_code_oldstyle, av, trackedIds]
  · refine ⟨{ id := 1, owner := 0, kind := .pub .video, media := av, stamp := 0, isOpen := true }, by decide,
      rfl, by decide, ?_⟩
    intro h
    have := h.2.1
    revert this
    decide

/-- The same schedule on the repaired model closes the late publisher. -/
example :
    let st := run Cfg.repaired State.init (asIsWitness ++ [.doClose 1])
    st.closing = [] ∧ st.pend = [] ∧ ∀ o ∈ st.objs, o.isOpen = false := by decide

/-- Revoking everything while a camera and a screen publisher exist
(`offer · offer · end · end · perms 0 - · state` in the harness). -/
def earlySweepWitness : List Action :=
  [.offerBegin 0 .video av, .offerBegin 0 .screen av, .createEnd 1 .ok, .createEnd 2 .ok,
   .setPerms 0 { media := false, audio := false, video := false, screen := false }, .sweep 0, .doClose 1]

/-- **With the early return in the revocation goroutine the permission clause is
false** (C08's finding seen from C09): the state is quiescent, the screen publisher
is open and tracked, and its owner has no `publish-screen` permission. -/
theorem C09_early_sweep_orphan (x y : Bool) :
    let cfg : Cfg := { recheckPub := true, recheckSub := true, sweepEarly := true, inCallExits := x, hubExits := y }
    let st := run cfg State.init earlySweepWitness
    Quiescent st ∧ ∃ o ∈ st.objs, o.isOpen = true ∧ o.kind = .pub .screen ∧
      permitted (st.sess o.owner).perms o.kind o.media = false := by
  cases x <;> cases y <;>
  · refine ⟨⟨by decide, by decide, ?_⟩, ?_⟩
    · intro i
      by_cases h : i = 0
      · subst h; decide
      · simp [run, earlySweepWitness, step, State.upd, beginCreate, createEndOk, findPend, recheckOk, sweepBody,
          videoToClose, dropEntry, State.init, Sess.init, h, permittedPub, C09_code_oldstyle, av, objMedia, findObj]
    · exact ⟨{ id := 2, owner := 0, kind := .pub .screen, media := av, stamp := 0, isOpen := true }, by decide,
        rfl, rfl, by decide⟩

/-- If the source still has the early return, this is a reachable state of the code's model. -/
theorem C09_early_sweep_orphan_code (h : sweepReturnsEarly = true) :
    let st := run codeCfg State.init earlySweepWitness
    ∃ o ∈ st.objs, o.isOpen = true ∧ o.kind = .pub .screen ∧
      permitted (st.sess o.owner).perms o.kind o.media = false := by
  have hc : codeCfg = ({ recheckPub := true, recheckSub := true, sweepEarly := true, inCallExits := codeCfg.inCallExits,
                         hubExits := codeCfg.hubExits } : Cfg) := by
    have h1 := C09_code_rechecks.1
    have h2 := C09_code_rechecks.2
    have h3 : codeCfg.sweepEarly = true := h
    cases hcfg : codeCfg with
    | mk a b c d e =>
      rw [hcfg] at h1 h2 h3
      simp only [] at h1 h2 h3
      rw [h1, h2, h3]
  rw [hc]
  exact (C09_early_sweep_orphan _ _).2

/-! ## 7. Non-vacuity -/

/-- The hypotheses of `C09_no_orphan` are met by a non-trivial state: a session in a
room with a stored camera publisher and a stored subscriber, nothing in flight. -/
example :
    let st := run Cfg.repaired State.init
      [.join 0 1, .join 1 1, .offerBegin 0 .video av, .subBegin 0 1 .video, .createEnd 2 .ok, .createEnd 1 .ok]
    st.pend = [] ∧ st.closing = [] ∧ (st.objs.filter (·.isOpen)).length = 2 ∧
    (st.sess 0).objs (.pub .video) = some 1 ∧ (st.sess 0).objs (.sub 1 .video) = some 2 := by decide

/-- … and formally: a reachable, quiescent state with an open object (the hypotheses of
`C09_no_orphan` and `C09_single_publisher_code` are jointly satisfiable). -/
example :
    let st := run Cfg.repaired State.init [.join 0 1, .offerBegin 0 .video av, .createEnd 1 .ok]
    Reachable Cfg.repaired st ∧ Quiescent st ∧ ∃ o ∈ st.objs, o.isOpen = true := by
  refine ⟨⟨_, rfl⟩, ⟨by decide, by decide, ?_⟩, ?_⟩
  · intro i
    by_cases h : i = 0
    · subst h; decide
    · simp [run, step, State.upd, beginCreate, createEndOk, findPend, recheckOk, Cfg.repaired, State.init,
        Sess.init, h, permittedPub, C09_code_oldstyle, av]
  · exact ⟨{ id := 1, owner := 0, kind := .pub .video, media := av, stamp := 0, isOpen := true }, by decide, rfl⟩

/-- The race of `C09_single_publisher`: two offers for the same stream, both created;
the second answer loses and is closed, one publisher remains. -/
example :
    let st := run Cfg.repaired State.init
      [.offerBegin 0 .video av, .offerBegin 0 .video av, .createEnd 2 .ok, .createEnd 1 .ok, .doClose 1]
    (st.objs.filter (·.isOpen)).map (·.id) = [2] ∧ (st.sess 0).objs (.pub .video) = some 2 := by decide

/-- `C09_late_creation_closed` has instances: leave, then the answer. -/
example :
    let st := run Cfg.repaired State.init [.join 0 1, .offerBegin 0 .video av, .leaveRoom 0]
    ∃ p, findPend st.pend p.id = some p ∧ (st.sess p.owner).epoch ≠ p.stamp :=
  ⟨{ id := 1, owner := 0, kind := .pub .video, media := av, stamp := 0 }, by decide, by decide⟩

end SigModel.Mcu
