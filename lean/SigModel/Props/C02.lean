/-
C02 — Backend requests are authenticated by per-backend HMAC in both directions.

Theorems about `Model/Checksum.lean`: the checksum functions of `api_backend.go`, the
authentication part of `roomHandler` *as interpreted from the statement list extracted
from the source*, `parseRequestBody`, and the signing of outgoing requests.  The MAC is a
parameter; the corollaries about tampering assume `IdealMac mac` explicitly.
-/
import SigModel.Spec.Checksum

namespace SigModel.Checksum
open SigModel SigModel.Hmac SigModel.Generated.Checksum

/-! ## 0. The checksum is the statement's: hex(HMAC(secret, random ++ body)) -/

theorem macInput_eq (random body : Bytes) : macInput random body = random ++ body := by
  simp [macInput, checksumWrites]

theorem checksumOf_eq_stmt (mac : Mac) (random body secret : Bytes) :
    checksumOf mac random body secret = stmtChecksum mac secret random body := by
  simp [checksumOf, stmtChecksum, macInput_eq, checksumIsHexOfMac]

theorem validate_iff (mac : Mac) (checksum random body secret : Bytes) :
    validate mac checksum random body secret = true ↔ checksum = stmtChecksum mac secret random body := by
  simp only [validate, validateComparesWholeStrings, if_true, checksumOf_eq_stmt, beq_iff_eq]
  exact eq_comm

/-- The hash the source names is the one of the statement. -/
theorem C02_source_facts :
    checksumHash = "sha256" ∧ checksumWrites = ["random", "body"] ∧ checksumIsHexOfMac = true ∧
    validateComparesWholeStrings = true ∧ validateReadsBothHeaders = true ∧
    HeaderBackendSignalingRandom = "Spreed-Signaling-Random" ∧
    HeaderBackendSignalingChecksum = "Spreed-Signaling-Checksum" ∧
    HeaderBackendServer = "Spreed-Signaling-Backend" ∧
    missingAuthHeadersForbidden = true ∧ randomIsHexOfCryptoRandHalfLength = true ∧
    outgoingRandomLength = 64 ∧ outgoingPostSites = outgoingPostSitesSigned ∧ 0 < outgoingPostSites ∧
    roomHandlerSteps = ["bruteforce-check", "bruteforce-429", "backend-nil", "read-backend-header",
      "header:lookup-or-403", "noheader:compat-else-search-or-403", "validate-or-403", "decode"] ∧
    -- the lookup of the backend a URL belongs to, statement by statement
    lookupEntryProgram = ["if strings.Contains(u.Host, \":\") && hasStandardPort(u) { u.Host = u.Hostname() }",
      "if hasDotSegments(u) { return nil }", "return b.storage.GetBackend(u)"] ∧
    lookupStaticProgram = ["s.mu.RLock()", "defer s.mu.RUnlock()",
      "if _, found := s.backends[u.Host]; !found { if s.allowAll { return s.compatBackend } return nil }",
      "return s.getBackendLocked(u)"] ∧
    lookupStorages = lookupStoragesThroughCommon ∧
    lookupProgram = ["entries, found := s.backends[u.Host]", "if !found { return nil }", "url := u.String()",
      stmtLookupAppendsSlash, stmtLookupLoop, "return nil"] ∧
    configUrlProgram = ["u, _ := GetStringOptionWithEnv(config, id, \"url\")", stmtConfigAppendsSlash,
      "if strings.Contains(parsed.Host, \":\") && hasStandardPort(parsed) { parsed.Host = parsed.Hostname() u = parsed.String() }"] ∧
    -- etcd: the url is stored as `CheckValid` leaves it, and `CheckValid` only drops a standard port
    etcdStoresCheckedUrl = true ∧
    etcdUrlProgram = ["if strings.Contains(parsedUrl.Host, \":\") && hasStandardPort(parsedUrl) { parsedUrl.Host = parsedUrl.Hostname() p.Url = parsedUrl.String() }"] := by
  decide +kernel

/-! ## 1. hex is injective: `Bytes.toHex_injective` (Basic/Bytes.lean) -/

open SigModel.Bytes (toHex_injective toHex_length)

/-! ## 2. The handler accepts iff the checksum is the HMAC under the claimed backend's secret -/

/-- The backend a request is taken to come from: the one its backend header resolves to;
without a header the compat backend, else the first configured backend whose secret made
the checksum ("find backend that created the checksum"). -/
def Claims (mac : Mac) (cfg : Cfg) (r : Req) (b : Backend) : Prop :=
  match r.hdr with
  | .known b' => b = b'
  | .unknown => False
  | .absent => match cfg.compat with
    | some c => b = c
    | none => cfg.backends.find? (fun x => validate mac r.checksum r.random r.body x.secret) = some b

/-- `roomHandler` up to the JSON decoding, evaluated on the extracted statement list. -/
theorem roomAuth_eq (mac : Mac) (cfg : Cfg) (r : Req) :
    roomAuth mac cfg r =
      match r.hdr with
      | .unknown => .forbidden
      | .known b => if validate mac r.checksum r.random r.body b.secret then .authenticated b else .forbidden
      | .absent => match cfg.compat with
        | some c => if validate mac r.checksum r.random r.body c.secret then .authenticated c else .forbidden
        | none => match cfg.backends.find? (fun x => validate mac r.checksum r.random r.body x.secret) with
          | some b => .authenticated b
          | none => .forbidden := by
  unfold roomAuth
  simp only [roomHandlerSteps, List.foldl]
  cases hh : r.hdr with
  | unknown => simp [authStep, hh]
  | known b =>
    by_cases hv : validate mac r.checksum r.random r.body b.secret = true <;> simp [authStep, hh, hv]
  | absent =>
    cases hc : cfg.compat with
    | some c =>
      by_cases hv : validate mac r.checksum r.random r.body c.secret = true <;> simp [authStep, hh, hc, hv]
    | none =>
      cases hf : cfg.backends.find? (fun x => validate mac r.checksum r.random r.body x.secret) with
      | none => simp [authStep, hh, hc, hf]
      | some b =>
        have hv : validate mac r.checksum r.random r.body b.secret = true := by
          have := List.find?_some hf; simpa using this
        simp [authStep, hh, hc, hf, hv]

/-- **C02_accept_iff.** The request passes authentication as backend `b` iff `b` is the
backend it claims to come from and its checksum header equals hex(HMAC(`b`'s secret,
random ‖ body)). -/
theorem C02_accept_iff (mac : Mac) (cfg : Cfg) (r : Req) (b : Backend) :
    roomAuth mac cfg r = .authenticated b ↔
      Claims mac cfg r b ∧ r.checksum = stmtChecksum mac b.secret r.random r.body := by
  rw [roomAuth_eq]
  unfold Claims
  cases hh : r.hdr with
  | unknown => simp
  | known b' =>
    simp only
    by_cases hv : validate mac r.checksum r.random r.body b'.secret = true
    · simp only [hv, if_true, Auth.authenticated.injEq]
      constructor
      · rintro rfl; exact ⟨rfl, (validate_iff _ _ _ _ _).mp hv⟩
      · rintro ⟨rfl, _⟩; rfl
    · simp only [hv, Bool.false_eq_true, if_false]
      constructor
      · intro h; cases h
      · rintro ⟨rfl, h⟩; exact absurd ((validate_iff _ _ _ _ _).mpr h) hv
  | absent =>
    cases hc : cfg.compat with
    | some c =>
      simp only
      by_cases hv : validate mac r.checksum r.random r.body c.secret = true
      · simp only [hv, if_true, Auth.authenticated.injEq]
        constructor
        · rintro rfl; exact ⟨rfl, (validate_iff _ _ _ _ _).mp hv⟩
        · rintro ⟨rfl, _⟩; rfl
      · simp only [hv, Bool.false_eq_true, if_false]
        constructor
        · intro h; cases h
        · rintro ⟨rfl, h⟩; exact absurd ((validate_iff _ _ _ _ _).mpr h) hv
    | none =>
      simp only
      cases hf : cfg.backends.find? (fun x => validate mac r.checksum r.random r.body x.secret) with
      | none => simp
      | some b' =>
        have hv : validate mac r.checksum r.random r.body b'.secret = true := by
          have := List.find?_some hf; simpa using this
        simp only [Auth.authenticated.injEq, Option.some.injEq]
        constructor
        · rintro rfl; exact ⟨rfl, (validate_iff _ _ _ _ _).mp hv⟩
        · rintro ⟨rfl, _⟩; rfl

/-- Otherwise the request is refused (403, failure recorded with the throttler): the
interpreted handler has no third outcome — in particular it never dereferences a nil
backend and knows every extracted statement. -/
theorem C02_auth_total (mac : Mac) (cfg : Cfg) (r : Req) :
    roomAuth mac cfg r = .forbidden ∨ ∃ b, roomAuth mac cfg r = .authenticated b := by
  rw [roomAuth_eq]
  cases r.hdr with
  | unknown => exact Or.inl rfl
  | known b => simp only; split <;> simp
  | absent =>
    cases cfg.compat with
    | some c => simp only; split <;> simp
    | none => simp only; split <;> simp

/-! ## 3. The whole handler: status, throttling, events -/

/-- **C02_accept_iff (HTTP level).** A request gets 200 iff it has a known length within the
limit, a JSON content type, both authentication headers, passes authentication as some
backend `b` (see above) and its body is a valid room request; the one publication then goes
to the backend-room subject of exactly that backend. -/
theorem C02_handle_200_iff (mac : Mac) (cfg : Cfg) (h : Http) :
    (handle mac cfg h).status = 200 ↔
      (∃ n, h.contentLength = some n ∧ n ≤ maxBodySize) ∧ h.contentTypeJson = true ∧
      h.req.random ≠ [] ∧ h.req.checksum ≠ [] ∧ h.bodyOk = true ∧
      ∃ b, roomAuth mac cfg h.req = .authenticated b ∧ (handle mac cfg h).events = [⟨h.room, b.id⟩] := by
  unfold handle
  cases hl : h.contentLength with
  | none => simp
  | some n =>
    simp only
    by_cases hn : n > maxBodySize
    · simp [hn]
    simp only [hn, if_false]
    cases hct : h.contentTypeJson with
    | false => simp
    | true =>
    simp only [Bool.not_true, Bool.false_eq_true, if_false]
    by_cases hm : missingAuthHeadersForbidden = true ∧ (h.req.random.isEmpty = true ∨ h.req.checksum.isEmpty = true)
    · simp only [hm, and_self, if_true]
      have : h.req.random = [] ∨ h.req.checksum = [] := by
        rcases hm.2 with h1 | h1
        · exact Or.inl (by simpa using h1)
        · exact Or.inr (by simpa using h1)
      rcases this with e | e <;> simp [e]
    simp only [hm, if_false]
    have hm' : h.req.random ≠ [] ∧ h.req.checksum ≠ [] := by
      have hflag : missingAuthHeadersForbidden = true := by decide
      simp only [hflag, true_and, not_or] at hm
      exact ⟨by simpa using hm.1, by simpa using hm.2⟩
    rcases C02_auth_total mac cfg h.req with hf | ⟨b, hb⟩
    · simp [hf]
    · simp only [hb]
      by_cases hbo : h.bodyOk = true
      · simp only [hbo, if_true, true_and]
        constructor
        · intro _; exact ⟨⟨n, rfl, by omega⟩, hm'.1, hm'.2, b, rfl, rfl⟩
        · intro _; trivial
      · simp [hbo]

/-- **C02_rejected_no_event.** Whatever is not answered with 200 publishes nothing — so no
event of a refused request can reach any client — and a refusal by the authentication is
403 with the failure recorded for throttling. -/
theorem C02_rejected_no_event (mac : Mac) (cfg : Cfg) (h : Http) (hne : (handle mac cfg h).status ≠ 200) :
    (handle mac cfg h).events = [] := by
  unfold handle at hne ⊢
  cases hl : h.contentLength with
  | none => rfl
  | some n =>
    simp only [hl] at hne ⊢
    split
    · rfl
    · split
      · rfl
      · split
        · rfl
        · rename_i h1 h2 h3
          simp only [h1, h2, h3, if_false] at hne
          split
          · rfl
          · split
            · rename_i b hb hbo; simp [hb, hbo] at hne
            · rfl
          · rfl

theorem C02_forbidden_is_403 (mac : Mac) (cfg : Cfg) (h : Http) (n : Nat) (hl : h.contentLength = some n)
    (hn : n ≤ maxBodySize) (hct : h.contentTypeJson = true) (hr : h.req.random ≠ []) (hc : h.req.checksum ≠ [])
    (hf : roomAuth mac cfg h.req = .forbidden) :
    handle mac cfg h = { status := 403, throttled := true, events := [] } := by
  unfold handle
  have hn' : ¬ n > maxBodySize := by omega
  have hr' : h.req.random.isEmpty = false := by cases hh : h.req.random with | nil => exact absurd hh hr | cons _ _ => rfl
  have hc' : h.req.checksum.isEmpty = false := by cases hh : h.req.checksum with | nil => exact absurd hh hc | cons _ _ => rfl
  simp [hl, hn', hct, hr', hc', hf]

/-! ## 4. Tampering (ideal MAC) -/

/-- Under an ideal MAC a checksum is valid for exactly one (secret, random ‖ body). -/
theorem C02_valid_checksum_unique (mac : Mac) (hideal : IdealMac mac) {c rnd body s c' rnd' body' s' : Bytes}
    (h : validate mac c rnd body s = true) (h' : validate mac c' rnd' body' s' = true) :
    c = c' ↔ (s = s' ∧ rnd ++ body = rnd' ++ body') := by
  rw [validate_iff] at h h'
  subst h h'
  unfold stmtChecksum
  constructor
  · intro e; exact hideal _ _ _ _ (toHex_injective e)
  · rintro ⟨rfl, e⟩; rw [e]

/-- **C02_tamper_rejected.** Given a valid (checksum, random, body) under a secret: keeping the
checksum while changing random ‖ body or the secret, or keeping those while changing the
checksum, makes validation fail. -/
theorem C02_tamper_rejected (mac : Mac) (hideal : IdealMac mac) {c rnd body s c' rnd' body' s' : Bytes}
    (h : validate mac c rnd body s = true)
    (hchg : (c' = c ∧ (rnd' ++ body' ≠ rnd ++ body ∨ s' ≠ s)) ∨ (c' ≠ c ∧ rnd' ++ body' = rnd ++ body ∧ s' = s)) :
    validate mac c' rnd' body' s' = false := by
  cases hv : validate mac c' rnd' body' s' with
  | false => rfl
  | true =>
    exfalso
    have := C02_valid_checksum_unique mac hideal h hv
    rcases hchg with ⟨rfl, hne⟩ | ⟨hne, hm, hs⟩
    · obtain ⟨e1, e2⟩ := this.mp rfl
      rcases hne with hne | hne
      · exact hne e2.symm
      · exact hne e1.symm
    · exact hne (this.mpr ⟨hs.symm, hm.symm⟩).symm

/-- **C02_tampered_request_403.** A request that names its backend (header, or compat
configuration) and was derived from a valid one of that backend by changing the body, the
random, or the checksum (not several of them consistently — that takes the secret), or
that carries a checksum made with another backend's different secret, is answered with 403,
recorded for throttling, and publishes nothing. -/
theorem C02_tampered_request_403 (mac : Mac) (hideal : IdealMac mac) (cfg : Cfg) (h : Http) (b : Backend)
    (n : Nat) (hl : h.contentLength = some n) (hn : n ≤ maxBodySize) (hct : h.contentTypeJson = true)
    (hr : h.req.random ≠ []) (hc : h.req.checksum ≠ [])
    (hclaim : h.req.hdr = .known b ∨ (h.req.hdr = .absent ∧ cfg.compat = some b))
    -- the valid request it was derived from, signed with secret `s`
    (c rnd body s : Bytes) (hvalid : validate mac c rnd body s = true)
    (hchg : (h.req.checksum = c ∧ (h.req.random ++ h.req.body ≠ rnd ++ body ∨ b.secret ≠ s)) ∨
            (h.req.checksum ≠ c ∧ h.req.random ++ h.req.body = rnd ++ body ∧ b.secret = s)) :
    handle mac cfg h = { status := 403, throttled := true, events := [] } := by
  apply C02_forbidden_is_403 mac cfg h n hl hn hct hr hc
  have hv := C02_tamper_rejected mac hideal hvalid hchg
  rw [roomAuth_eq]
  rcases hclaim with hk | ⟨ha, hcompat⟩
  · simp [hk, hv]
  · simp [ha, hcompat, hv]

/-- The same without a backend header in a configuration with several backends (the server
searches for the backend that made the checksum): a request that keeps a valid checksum but
changes random ‖ body is refused whatever the configured secrets are. -/
theorem C02_tampered_request_403_search (mac : Mac) (hideal : IdealMac mac) (cfg : Cfg) (h : Http)
    (n : Nat) (hl : h.contentLength = some n) (hn : n ≤ maxBodySize) (hct : h.contentTypeJson = true)
    (hr : h.req.random ≠ []) (hc : h.req.checksum ≠ [])
    (ha : h.req.hdr = .absent) (hcompat : cfg.compat = none)
    (rnd body s : Bytes) (hvalid : validate mac h.req.checksum rnd body s = true)
    (hchg : h.req.random ++ h.req.body ≠ rnd ++ body) :
    handle mac cfg h = { status := 403, throttled := true, events := [] } := by
  apply C02_forbidden_is_403 mac cfg h n hl hn hct hr hc
  rw [roomAuth_eq]
  have hnone : cfg.backends.find? (fun x => validate mac h.req.checksum h.req.random h.req.body x.secret) = none := by
    rw [List.find?_eq_none]
    intro x _
    have := C02_tamper_rejected mac hideal (c' := h.req.checksum) (rnd' := h.req.random) (body' := h.req.body)
      (s' := x.secret) hvalid (Or.inl ⟨rfl, Or.inl hchg⟩)
    simp [this]
  simp [ha, hcompat, hnone]

/-! ## 5. The boundary between random and body is not authenticated -/

/-- **C02_boundary_shift.** The checksum authenticates `random ++ body`, not the pair: moving
bytes across the boundary leaves validation — and with it the whole authentication
decision of the handler — unchanged. -/
theorem C02_boundary_shift (mac : Mac) (checksum r x body secret : Bytes) :
    validate mac checksum (r ++ x) body secret = validate mac checksum r (x ++ body) secret := by
  unfold validate checksumOf
  rw [macInput_eq, macInput_eq, List.append_assoc]

theorem C02_boundary_shift_auth (mac : Mac) (cfg : Cfg) (hdr : Hdr) (checksum r x body : Bytes) :
    roomAuth mac cfg ⟨hdr, r ++ x, checksum, body⟩ = roomAuth mac cfg ⟨hdr, r, checksum, x ++ body⟩ := by
  rw [roomAuth_eq, roomAuth_eq]
  simp only [C02_boundary_shift]

/-- So "any change to body or random yields 403" is false of the authentication as such: a
shifted request authenticates; what it then gets depends on the JSON decoder (`bodyOk`): 400
without publication for every shifted body that is not a valid room request.  Witness: -/
theorem C02_boundary_shift_not_403 :
    let b : Backend := ⟨"b1", [115]⟩
    let cfg : Cfg := ⟨none, [b]⟩
    let rnd : Bytes := [97, 98]
    let body : Bytes := [123, 125]
    let c := checksumOf toyMac rnd body b.secret
    let orig : Http := ⟨"r", some 2, true, ⟨.known b, rnd, c, body⟩, true⟩
    let shifted : Http := ⟨"r", some 3, true, ⟨.known b, [97], c, 98 :: body⟩, false⟩
    (handle toyMac cfg orig).status = 200 ∧ handle toyMac cfg shifted = { status := 400, throttled := false, events := [] } := by
  decide

/-! ## 6. Outgoing requests -/

/-- **C02_outgoing.** Every request `PerformJSONRequest` sends for a URL that resolves to
backend `b` carries a random of 64 hex characters made of 32 bytes of entropy and a checksum
that validates under `b`'s secret (so `b` — and, under an ideal MAC, only a holder of that
secret — accepts it); different entropy gives a different random; and for a URL that
resolves to no backend nothing is sent. -/
theorem C02_outgoing (mac : Mac) (b : Backend) (entropy body : Bytes) (hent : 32 ≤ entropy.length) :
    ∃ rnd c, performRequest mac (some b) entropy body = some (rnd, c) ∧
      rnd = Bytes.toHex (entropy.take 32) ∧ rnd.length = 64 ∧
      validate mac c rnd body b.secret = true ∧ c = stmtChecksum mac b.secret rnd body := by
  have hsites : outgoingPostSitesSigned = outgoingPostSites := by decide
  refine ⟨Bytes.toHex (entropy.take 32), checksumOf mac (Bytes.toHex (entropy.take 32)) body b.secret, ?_, rfl, ?_, ?_, ?_⟩
  · simp [performRequest, hsites, addChecksum, newRandomString, outgoingRandomLength]
  · rw [toHex_length, List.length_take]; omega
  · rw [validate_iff, checksumOf_eq_stmt]
  · exact checksumOf_eq_stmt _ _ _ _

theorem C02_outgoing_unconfigured (mac : Mac) (entropy body : Bytes) :
    performRequest mac none entropy body = none := rfl

theorem C02_outgoing_fresh (e₁ e₂ : Bytes) (h : e₁.take 32 ≠ e₂.take 32) :
    newRandomString outgoingRandomLength e₁ ≠ newRandomString outgoingRandomLength e₂ := by
  intro e
  exact h (toHex_injective (by simpa [newRandomString, outgoingRandomLength] using e))

/-- A signed outgoing request is refused by a party holding a different secret. -/
theorem C02_outgoing_other_secret (mac : Mac) (hideal : IdealMac mac) (b : Backend) (entropy body s' : Bytes)
    (hne : s' ≠ b.secret) :
    ∀ rnd c, performRequest mac (some b) entropy body = some (rnd, c) → validate mac c rnd body s' = false := by
  intro rnd c h
  have hsites : outgoingPostSitesSigned = outgoingPostSites := by decide
  simp only [performRequest, hsites, if_true, addChecksum, Option.some.injEq, Prod.mk.injEq] at h
  obtain ⟨rfl, rfl⟩ := h
  have hv : validate mac (checksumOf mac (newRandomString outgoingRandomLength entropy) body b.secret)
      (newRandomString outgoingRandomLength entropy) body b.secret = true := by
    rw [validate_iff, checksumOf_eq_stmt]
  exact C02_tamper_rejected mac hideal hv (Or.inl ⟨rfl, Or.inr hne⟩)

/-! ## 7. Which backend a URL belongs to

The backend header of a room API request and the target of an outgoing request are URLs; the secret
used is that of the backend `getBackendLocked` finds.  The spec (`under`, `owners`) says what it means
for a URL to belong to a backend by the components of the URLs; the model compares strings as the
code does (statements read from the source). -/

theorem splitSlash_ne_nil (u : List Char) : splitSlash u ≠ [] := by
  cases u with
  | nil => simp [splitSlash]
  | cons c cs =>
    unfold splitSlash
    split
    · simp
    · split <;> simp

theorem splitSlash_cons_slash (cs : List Char) : splitSlash ('/' :: cs) = [] :: splitSlash cs := by
  simp [splitSlash]

theorem splitSlash_cons_other (c : Char) (cs : List Char) (h : c ≠ '/') :
    ∃ s ss, splitSlash cs = s :: ss ∧ splitSlash (c :: cs) = (c :: s) :: ss := by
  cases hs : splitSlash cs with
  | nil => exact absurd hs (splitSlash_ne_nil cs)
  | cons s ss => exact ⟨s, ss, rfl, by rw [splitSlash]; simp [h, hs]⟩

theorem splitSlash_nil : splitSlash [] = [[]] := by simp [splitSlash]

/-- A `'/'`-terminated string is a prefix of another `'/'`-terminated string iff its pieces between the
slashes are the leading pieces of the other. -/
theorem prefix_slash_eq_components (p u : List Char) :
    (p ++ ['/']).isPrefixOf (u ++ ['/']) = (splitSlash p).isPrefixOf (splitSlash u) := by
  induction p generalizing u with
  | nil =>
    cases u with
    | nil => simp [splitSlash_nil]
    | cons b u' =>
      by_cases hb : b = '/'
      · subst hb; rw [splitSlash_cons_slash, splitSlash_nil]; simp
      · obtain ⟨s, ss, _, h2⟩ := splitSlash_cons_other b u' hb
        rw [h2, splitSlash_nil]
        have : ('/' == b) = false := by simp [Ne.symm hb]
        simp [List.isPrefixOf_cons_cons, this]
  | cons a p' ih =>
    cases u with
    | nil =>
      by_cases ha : a = '/'
      · subst ha
        cases hs : splitSlash p' with
        | nil => exact absurd hs (splitSlash_ne_nil p')
        | cons s ss => rw [splitSlash_cons_slash, splitSlash_nil, hs]; simp
      · obtain ⟨s, ss, _, h2⟩ := splitSlash_cons_other a p' ha
        rw [h2, splitSlash_nil]
        have : (a == '/') = false := by simp [ha]
        simp [List.isPrefixOf_cons_cons, this]
    | cons b u' =>
      simp only [List.cons_append, List.isPrefixOf_cons_cons]
      by_cases ha : a = '/' <;> by_cases hb : b = '/'
      · subst ha hb; rw [splitSlash_cons_slash, splitSlash_cons_slash, ih]; simp
      · subst ha
        obtain ⟨s, ss, _, h2⟩ := splitSlash_cons_other b u' hb
        rw [h2, splitSlash_cons_slash]
        have : ('/' == b) = false := by simp [Ne.symm hb]
        simp [List.isPrefixOf_cons_cons, this]
      · subst hb
        obtain ⟨s, ss, _, h2⟩ := splitSlash_cons_other a p' ha
        rw [h2, splitSlash_cons_slash]
        have : (a == '/') = false := by simp [ha]
        simp [List.isPrefixOf_cons_cons, this]
      · obtain ⟨s, ss, h1, h2⟩ := splitSlash_cons_other a p' ha
        obtain ⟨t, ts, h3, h4⟩ := splitSlash_cons_other b u' hb
        rw [h2, h4, ih u', h1, h3]
        simp only [List.isPrefixOf_cons_cons]
        by_cases hab : a = b
        · subst hab; simp
        · have : (a == b) = false := by simp [hab]
          simp [this]

theorem lookup_facts :
    lookupProgram.contains stmtLookupAppendsSlash = true ∧ lookupProgram.contains stmtLookupLoop = true ∧
    configUrlProgram.contains stmtConfigAppendsSlash = true ∧
    etcdUrlProgram.contains stmtEtcdAppendsSlash = false := by decide +kernel

theorem eq_stripSlash_append (u : List Char) (h : endsSlash u = true) : u = stripSlash u ++ ['/'] := by
  have hl : u.getLast? = some '/' := by simpa [endsSlash] using h
  simp only [stripSlash, h, if_true]
  obtain ⟨ys, hy⟩ := List.getLast?_eq_some_iff.mp hl
  rw [hy]; simp

theorem slashTerm_eq (u : List Char) : slashTerm u = stripSlash u ++ ['/'] := by
  by_cases h : endsSlash u = true
  · simp only [slashTerm, h, if_true]; exact eq_stripSlash_append u h
  · simp [slashTerm, stripSlash, h]

theorem endsSlash_slashTerm (u : List Char) : endsSlash (slashTerm u) = true := by
  rw [slashTerm_eq]; simp [endsSlash]

/-- Every backend URL stored from the configuration file ends in a slash (`getConfiguredHosts`). -/
theorem C02_config_url_slash_terminated (u : List Char) : endsSlash (configUrl u) = true := by
  simp only [configUrl, lookup_facts.2.2.1, if_true]; exact endsSlash_slashTerm u

/-- A backend URL received from etcd is stored as given — with or without the final slash. -/
theorem C02_etcd_url_as_given (u : List Char) : etcdUrl u = u := by
  simp only [etcdUrl, lookup_facts.2.2.2, Bool.false_eq_true, if_false]

/-- No stored backend URL is empty: the configuration file's is `'/'`-terminated, and
`BackendInformationEtcd.CheckValid` refuses an empty one ("url missing"). -/
theorem C02_stored_url_nonempty (u : List Char) : configUrl u ≠ [] ∧ (u ≠ [] → etcdUrl u ≠ []) := by
  refine ⟨fun h => ?_, fun hu => by rw [C02_etcd_url_as_given]; exact hu⟩
  have := C02_config_url_slash_terminated u
  rw [h] at this
  simp [endsSlash] at this

/-- The comparison of `getBackendLocked` decides exactly "the URL lies under the backend URL" — whether
the entry's URL is stored with the final slash (configuration file) or without (etcd). -/
theorem C02_entry_match_iff_under (e : Entry) (u : List Char) (he : e.url ≠ []) :
    entryMatches (lookupKey u) e = under e.url u := by
  have hne : e.url.isEmpty = false := by cases h : e.url with
    | nil => exact absurd h he
    | cons _ _ => rfl
  simp only [entryMatches, lookupKey, lookup_facts.1, lookup_facts.2.1, if_true, hne, Bool.false_or]
  rw [slashTerm_eq, slashTerm_eq, prefix_slash_eq_components]
  simp only [under, components]

/-- **C02_lookup_owner.** The backend a URL resolves to is the first configured backend the URL lies
under — no backend if it lies under none. -/
theorem C02_lookup_owner (es : List Entry) (u : List Char) (hes : ∀ e ∈ es, e.url ≠ []) :
    lookup es u = (owners es u).head? := by
  unfold lookup owners
  induction es with
  | nil => rfl
  | cons e es ih =>
    have he := hes e (by simp)
    have ih' := ih (fun x hx => hes x (by simp [hx]))
    simp only [List.find?_cons, List.filter_cons, C02_entry_match_iff_under e u he]
    cases hu : under e.url u with
    | true => simp
    | false => simpa using ih'


/-- **C02_hdr_claims.** The backend header of a request resolves to `b` only if the URL it carries lies
under `b`'s URL; a URL under no configured backend URL is unknown (so: 403, `roomAuth_eq`); and if the
URL lies under exactly one backend URL (no nested backend URLs), it resolves to that backend. -/
theorem C02_hdr_claims (es : List Entry) (v : List Char) (hes : ∀ e ∈ es, e.url ≠ []) :
    (∀ b, hdrOf es v = .known b → b ∈ owners es v) ∧
    (v ≠ [] → owners es v = [] → hdrOf es v = .unknown) ∧
    (∀ b, v ≠ [] → owners es v = [b] → hdrOf es v = .known b) ∧
    (hdrOf es v = .absent ↔ v = []) := by
  have hl := C02_lookup_owner es v hes
  unfold hdrOf
  cases v with
  | nil => simp
  | cons c cs =>
    simp only [List.isEmpty_cons, Bool.false_eq_true, if_false, hl]
    cases ho : owners es (c :: cs) with
    | nil => simp
    | cons b bs => simp

/-- The hypotheses of `C02_lookup_owner` / `C02_hdr_claims` hold for a configuration as
`getConfiguredHosts` stores it, with sibling URLs written with and without the final slash. -/
example :
    let es : List Entry := [⟨⟨"b1", [1]⟩, configUrl "http://h/cloud".toList⟩, ⟨⟨"b2", [2]⟩, configUrl "http://h/cloud2/".toList⟩]
    (∀ e ∈ es, e.url ≠ []) ∧ owners es "http://h/cloud2".toList = [⟨"b2", [2]⟩] ∧
    hdrOf es "http://h/cloud2".toList = .known ⟨"b2", [2]⟩ ∧ hdrOf es "http://h/cloud3/".toList = .unknown ∧
    hdrOf es [] = .absent := by
  decide +kernel

/-- … and for backends as `EtcdKeyUpdated` stores them: URLs kept as given, here without the final slash. -/
example :
    let es : List Entry := [⟨⟨"b1", [1]⟩, etcdUrl "https://domain1.invalid/foo".toList⟩, ⟨⟨"b2", [2]⟩, etcdUrl "https://domain1.invalid/foobar".toList⟩]
    (∀ e ∈ es, e.url ≠ [] ∧ endsSlash e.url = false) ∧
    owners es "https://domain1.invalid/foobar/ocs/v2.php".toList = [⟨"b2", [2]⟩] ∧
    hdrOf es "https://domain1.invalid/foobar/ocs/v2.php".toList = .known ⟨"b2", [2]⟩ ∧
    hdrOf es "https://domain1.invalid/foo".toList = .known ⟨"b1", [1]⟩ ∧
    hdrOf es "https://domain1.invalid/foob/".toList = .unknown ∧
    hdrOf (es.take 1) "https://domain1.invalid/foobar/ocs/v2.php".toList = .unknown := by
  decide +kernel

/-- Why the terminating slashes matter (the comparison this model interprets is pinned by
`C02_source_facts`): without them a backend URL is also a string prefix of its sibling's URLs, although
those do not lie under it; with them the sibling resolves to its own backend whatever the order — for
entries stored with the final slash (configuration file) and without it (etcd) alike. -/
theorem C02_prefix_without_slash_is_not_ownership :
    let cloud := "http://h/cloud/".toList
    let cloud2 := "http://h/cloud2/".toList
    let u := "http://h/cloud2/ocs/v2.php".toList
    let b1 : Backend := ⟨"b1", [1]⟩
    let b2 : Backend := ⟨"b2", [2]⟩
    (stripSlash cloud).isPrefixOf u = true ∧ under cloud u = false ∧ under cloud2 u = true ∧
    lookup [⟨b1, cloud⟩, ⟨b2, cloud2⟩] u = some b2 ∧ lookup [⟨b2, cloud2⟩, ⟨b1, cloud⟩] u = some b2 ∧
    lookup [⟨b1, cloud⟩, ⟨b2, cloud2⟩] "http://h/cloud".toList = some b1 ∧
    lookup [⟨b1, cloud⟩, ⟨b2, cloud2⟩] "http://h/clou/".toList = none ∧
    -- the same backends with their URLs stored without the final slash
    under (stripSlash cloud) u = false ∧
    lookup [⟨b1, stripSlash cloud⟩, ⟨b2, stripSlash cloud2⟩] u = some b2 ∧
    lookup [⟨b1, stripSlash cloud⟩] u = none ∧
    lookup [⟨b1, stripSlash cloud⟩] "http://h/cloud/x".toList = some b1 := by
  decide +kernel


/-! ## 9. The secret in force for a backend is the one of the configuration loaded last

`getConfiguredHosts` derives a section's secret from the section and the common secret it is handed; both callers —
startup and `Reload` — hand it the common secret of the very file they are loading (`startHostsArgs`,
`reloadHostsArgs`: where each argument of the call comes from, read from the source).  Hence nothing of an earlier
file survives a reload: not a backend's former secret, not the former common secret. -/

theorem C02_secret_source_facts :
    secretProgram = [stmtSecretOwn, stmtSecretFallback, stmtSecretSkip] ∧
    startHostsCall = hostsCallFromLoadedFile ∧ startHostsArgs = hostsArgsFromLoadedFile ∧
    reloadHostsCall = hostsCallFromLoadedFile ∧ reloadHostsArgs = hostsArgsFromLoadedFile ∧
    configuredHostsCallSites = 2 := by
  decide +kernel

theorem startFromLoadedFile_true : startFromLoadedFile = true := by decide +kernel
theorem reloadFromLoadedFile_true : reloadFromLoadedFile = true := by decide +kernel

theorem effectiveSecret_eq (own common : Bytes) :
    effectiveSecret own common =
      (let s := if own.isEmpty then common else own
       if s.isEmpty then none else some s) := by
  have h1 : secretProgram.contains stmtSecretFallback = true := by decide +kernel
  have h2 : secretProgram.contains stmtSecretSkip = true := by decide +kernel
  unfold effectiveSecret
  rw [h1, h2]
  cases own <;> cases common <;> simp

theorem resolveSecrets_eq_spec (f : SecretFile) : resolveSecrets f.common f.backends = specSecrets f := by
  have hfun : (fun r : Backend => (effectiveSecret r.secret f.common).map fun s => (⟨r.id, s⟩ : Backend)) =
      (fun r : Backend =>
        let s := if r.secret.isEmpty then f.common else r.secret
        if s.isEmpty then none else some ⟨r.id, s⟩) := by
    funext r
    rw [effectiveSecret_eq]
    simp only []
    split <;> (try split) <;> simp_all
  show List.filterMap _ f.backends = List.filterMap _ f.backends
  rw [hfun]

/-- Startup: the table of secrets is the statement's reading of the file. -/
theorem C02_start_secrets (f : SecretFile) : (startSecrets f).backends = specSecrets f := by
  unfold startSecrets
  rw [startFromLoadedFile_true]
  exact resolveSecrets_eq_spec f

/-- `Reload`: whatever the storage held or cached before, afterwards the table of secrets is the statement's reading
of the file just loaded. -/
theorem C02_reload_secrets (st : SecretState) (f : SecretFile) : (reloadSecrets st f).backends = specSecrets f := by
  unfold reloadSecrets
  rw [reloadFromLoadedFile_true]
  exact resolveSecrets_eq_spec f

/-- The storage after a start and any number of reloads. -/
def loadAll (f0 : SecretFile) (fs : List SecretFile) : SecretState := fs.foldl reloadSecrets (startSecrets f0)

theorem foldl_reload_backends (fs : List SecretFile) (st : SecretState) (f : SecretFile) :
    ((f :: fs).foldl reloadSecrets st).backends = specSecrets ((f :: fs).getLast (by simp)) := by
  induction fs generalizing st f with
  | nil => simpa using C02_reload_secrets st f
  | cons g rest ih =>
    have := ih (reloadSecrets st f) g
    simpa [List.getLast_cons] using this

/-- **C02, secret in force.**  For every start file and every sequence of reloaded files, the secrets the server
checks incoming requests against and signs outgoing requests with are exactly those of the file loaded last, as the
statement reads it (own secret, else the common secret of that same file; neither ⇒ not a backend). -/
theorem C02_secret_in_force_is_current (f0 : SecretFile) (fs : List SecretFile) :
    (loadAll f0 fs).backends = specSecrets (fileInForce f0 fs) := by
  unfold loadAll fileInForce
  cases fs with
  | nil => simpa using C02_start_secrets f0
  | cons f rest =>
    rw [foldl_reload_backends rest (startSecrets f0) f]
    simp [List.getLast_cons]

/-- Rotation: after a reload a backend is a backend of the file just loaded, and a checksum made with any other
secret — the one it had before, the former common secret — does not validate for it (ideal MAC). -/
theorem C02_rotated_out_secret_rejected (mac : Mac) (hideal : IdealMac mac) (st : SecretState) (f : SecretFile)
    (b : Backend) (hb : b ∈ (reloadSecrets st f).backends) :
    b ∈ specSecrets f ∧
    ∀ old rnd body : Bytes, old ≠ b.secret → validate mac (checksumOf mac rnd body old) rnd body b.secret = false := by
  refine ⟨by rwa [C02_reload_secrets] at hb, ?_⟩
  intro old rnd body hold
  cases h : validate mac (checksumOf mac rnd body old) rnd body b.secret with
  | false => rfl
  | true =>
    rw [validate_iff, checksumOf_eq_stmt] at h
    have := hideal _ _ _ _ (toHex_injective h)
    exact absurd this.1 hold

example :
    let f0 : SecretFile := ⟨[1], [⟨"b1", []⟩, ⟨"b2", [7]⟩]⟩
    let f1 : SecretFile := ⟨[2], [⟨"b1", []⟩, ⟨"b2", [7]⟩, ⟨"b3", []⟩]⟩
    let f2 : SecretFile := ⟨[], [⟨"b1", []⟩, ⟨"b2", [8]⟩]⟩
    (loadAll f0 []).backends = [⟨"b1", [1]⟩, ⟨"b2", [7]⟩] ∧
    (loadAll f0 [f1]).backends = [⟨"b1", [2]⟩, ⟨"b2", [7]⟩, ⟨"b3", [2]⟩] ∧
    (loadAll f0 [f1, f2]).backends = [⟨"b2", [8]⟩] := by
  decide +kernel

/-! ## 10. A signed request and the redirects it is answered with

Every signed request is sent through a pool client whose `CheckRedirect` refuses a redirect to another scheme or
another host (name **and** port).  So every request an outgoing request leads to — each of them carrying the random
and checksum of the first — stays on the scheme and host of the backend it was signed for.  Within that origin the
path is free: see `C02_redirect_within_origin_leaves_backend`. -/

theorem C02_redirect_guard_facts :
    checkRedirectProgram = [stmtCheckRedirect, "return nil"] ∧ outgoingSentThroughPoolClient = true ∧
    poolClientLiterals = poolClientLiteralsWithCheckRedirect ∧ 0 < poolClientLiterals ∧ outgoingOwnClients = 0 := by
  decide +kernel

theorem clientGuarded_true : clientGuarded = true := by decide +kernel

theorem redirectAllowed_iff (prev next : List Char) :
    redirectAllowed prev next = true ↔ schemeOf next = schemeOf prev ∧ hostOf next = hostOf prev := by
  unfold redirectAllowed
  rw [clientGuarded_true]
  simp

/-- **C02, redirects.**  Whatever the servers answer, every further request is sent to the scheme and host of the first. -/
theorem C02_redirect_stays_on_origin (chain : List Hop) (u : List Char) (post : Bool) :
    ∀ s ∈ follow u post chain, schemeOf s.url = schemeOf u ∧ hostOf s.url = hostOf u := by
  induction chain generalizing u post with
  | nil => intro s hs; simp [follow] at hs
  | cons h rest ih =>
    intro s hs
    unfold follow at hs
    by_cases hc : isRedirectCode h.code = true
    · by_cases ha : redirectAllowed u h.location = true
      · simp only [hc, ha, Bool.not_true, Bool.false_eq_true, ↓reduceIte, List.mem_cons] at hs
        have ho := (redirectAllowed_iff u h.location).1 ha
        rcases hs with rfl | hs
        · exact ho
        · have := ih h.location _ s hs
          exact ⟨this.1.trans ho.1, this.2.trans ho.2⟩
      · simp [hc, ha] at hs
    · simp [hc] at hs

/-- A redirect to another scheme, host name or port ends the exchange: nothing further is sent. -/
theorem C02_redirect_other_origin_not_followed (u : List Char) (post : Bool) (h : Hop) (rest : List Hop)
    (hne : schemeOf h.location ≠ schemeOf u ∨ hostOf h.location ≠ hostOf u) : follow u post (h :: rest) = [] := by
  have : redirectAllowed u h.location = false := by
    cases hr : redirectAllowed u h.location with
    | false => rfl
    | true =>
      have := (redirectAllowed_iff u h.location).1 hr
      rcases hne with h1 | h2
      · exact absurd this.1 h1
      · exact absurd this.2 h2
  unfold follow
  by_cases hc : isRedirectCode h.code = true <;> simp [hc, this]

theorem C02_deliveries_same_origin (t : Option Backend) (u : List Char) (chain : List Hop) :
    ∀ s ∈ deliveries t u chain, schemeOf s.url = schemeOf u ∧ hostOf s.url = hostOf u := by
  intro s hs
  unfold deliveries at hs
  cases t with
  | none => simp at hs
  | some b =>
    simp only [List.mem_cons] at hs
    rcases hs with rfl | hs
    · exact ⟨rfl, rfl⟩
    · exact C02_redirect_stays_on_origin chain u true s hs

/-- The host compared is name and port; scheme, name and port each stop a redirect.  And the limit of the guard:
two backends on one origin — a 307 of the first to the url of the second is followed, the second receives the POST
with the checksum made with the first one's secret (the judge's verdict on exactly what the model sends; open finding
`C02-redirect-within-origin-leaves-backend`, reproduced on the code by the harness). -/
theorem C02_redirect_within_origin_leaves_backend :
    let b1 : Backend := ⟨"b1", [1]⟩
    let b2 : Backend := ⟨"b2", [2]⟩
    let es : List Entry := [⟨b1, "http://h:80/one/".toList⟩, ⟨b2, "http://h:80/two/".toList⟩]
    let u := "http://h:80/one/ocs".toList
    let two := "http://h:80/two/ocs".toList
    let rnd : Bytes := [97]
    let body : Bytes := [123, 125]
    hostOf u = "h:80".toList ∧ schemeOf u = "http".toList ∧
    deliveries (lookup es u) u [⟨307, "http://h:81/one/ocs".toList⟩] = [⟨u, true, true⟩] ∧
    deliveries (lookup es u) u [⟨308, "http://g:80/one/ocs".toList⟩] = [⟨u, true, true⟩] ∧
    deliveries (lookup es u) u [⟨307, "https://h:80/one/ocs".toList⟩] = [⟨u, true, true⟩] ∧
    deliveries (lookup es u) u [⟨302, "http://h:80/one/index.php".toList⟩, ⟨307, "http://h:80/one/x".toList⟩] =
      [⟨u, true, true⟩, ⟨"http://h:80/one/index.php".toList, false, false⟩, ⟨"http://h:80/one/x".toList, false, true⟩] ∧
    lookup es u = some b1 ∧ owners es two = [b2] ∧
    deliveries (lookup es u) u [⟨307, two⟩] = [⟨u, true, true⟩, ⟨two, true, true⟩] ∧
    redirectVerdicts toyMac es body u [⟨two, true, rnd, body, checksumOf toyMac rnd body b1.secret⟩] =
      "violated:redirect-within-origin-leaves-backend-url" ∧
    redirectVerdicts toyMac es body u [⟨"http://h:80/one/x".toList, true, rnd, body, checksumOf toyMac rnd body b1.secret⟩] = "ok" := by
  decide +kernel

/-! ## 8. Non-vacuity -/

/-- The hypotheses of the tampering theorems are met by a concrete valid request (toy MAC),
which the handler accepts and publishes for its backend. -/
example :
    let b : Backend := ⟨"b1", [115]⟩
    let b2 : Backend := ⟨"b2", [116]⟩
    let cfg : Cfg := ⟨none, [b2, b]⟩
    let rnd : Bytes := [97, 98]
    let body : Bytes := [123, 125]
    let c := checksumOf toyMac rnd body b.secret
    validate toyMac c rnd body b.secret = true ∧
    handle toyMac cfg ⟨"r", some 2, true, ⟨.known b, rnd, c, body⟩, true⟩ = { status := 200, events := [⟨"r", "b1"⟩] } ∧
    -- without header: found by search, second in the list
    handle toyMac cfg ⟨"r", some 2, true, ⟨.absent, rnd, c, body⟩, true⟩ = { status := 200, events := [⟨"r", "b1"⟩] } ∧
    -- claiming the other backend
    handle toyMac cfg ⟨"r", some 2, true, ⟨.known b2, rnd, c, body⟩, true⟩ = { status := 403, throttled := true } ∧
    -- one body bit flipped
    handle toyMac cfg ⟨"r", some 2, true, ⟨.known b, rnd, c, [123, 124]⟩, true⟩ = { status := 403, throttled := true } := by
  decide

example : IdealMac toyMac := toyMac_ideal

end SigModel.Checksum
