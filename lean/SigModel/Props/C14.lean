/-
C14 — Transient room data: listeners converge to the room's data; TTLs are honoured.

Property theorems about the model of `transient_data.go` (`Model/Transient.lean`),
which is defined over the facts regenerated from the current source
(`Generated/Transient.lean`), stated against the ideal store and the listener
replicas of `Spec/Transient.lean`.

Whole API calls and the timer callback run under the store mutex
(`C14_atomic_ops`), so a run of several goroutines is a sequence of `Op`s; the
theorems quantify over *all* such sequences, the timing of expiry relative to
the calls being the position of `advance` (quiescent) or of `fire` / `runCb`
(a callback that has fired but is still waiting for the mutex) in the list.
-/
import SigModel.Lemmas.Transient
import SigModel.Lemmas.TransientRooms

namespace SigModel.Transient
open SigModel.Generated.Transient

/-! ## 0. What the source is -/

/-- The current source is the repaired code: the three places of DESIGN §6 #11
(`updateTTL` stops the timer, `removeAfterTTL` stops the previous timer before its
early return, the expiry callback checks that it is still the current timer) and
the silent compare-and-set to the stored value — as read by the extractor.
Reverting any of them in `/repo` makes this (and everything below) fail. -/
theorem C14_source_is_repaired : Cfg.current = Cfg.repaired := by decide

theorem step_eq (st : State) (op : Op) : step st op = stepC Cfg.repaired st op := by
  unfold step; rw [C14_source_is_repaired]

theorem run_eq (st : State) (ops : List Op) : run st ops = runC Cfg.repaired st ops := by
  unfold run; rw [C14_source_is_repaired]

/-- Every exported method of `TransientData` is one critical section (or a plain delegation to
one): of the store mutex `t.mu`, except `RemoveListener`, whose critical section is the listener
set's own mutex.  The expiry callback takes `t.mu`, a `nil` value means remove, and the only
senders `notifySet` / `notifyDeleted` are reached from `doSet` / `doRemove` alone — so a whole
`Op` of the model is one atomic step, and delivery order is commit order. -/
theorem C14_atomic_ops :
    atomicMethods = exportedMethods ∧
    exportedMethods = ["AddListener", "CompareAndRemove", "CompareAndSet", "CompareAndSetTTL", "GetData",
      "Remove", "RemoveListener", "Set", "SetTTL"] ∧
    otherLockMethods = ["RemoveListener:listenersMu"] ∧
    notifyCallers = ["doRemove->notifyDeleted", "doSet->notifySet"] ∧
    expiryCallbackLocked = true ∧ setNilRemoves = true ∧ casNilRemoves = true := by decide

/-- The listener set lives under a leaf mutex: every access to `t.listeners` is inside a
`t.listenersMu` section, no such section calls anything but map / slice builtins, and
`RemoveListener` takes no other lock.  A listener whose `SendMessage` takes a lock that is also
held while it is being removed (session mutex: `LeaveRoom` → `RemoveSession` → `RemoveListener`)
can therefore not close a cycle through `t.mu` (the deadlock of the pinned tree, fixed in 001c654). -/
theorem C14_listener_lock_is_leaf :
    listenerSetUsers = ["AddListener", "RemoveListener", "getListeners"] ∧
    listenerSetUnguarded = [] ∧ listenersMuCallsOut = [] ∧
    otherLockMethods = ["RemoveListener:listenersMu"] := by decide

/-- `room.go` / `hub.go` reach the store only through these delegations: the room's setters are
one-line calls, sessions are registered as listeners on join and unregistered on leave. -/
theorem C14_wiring :
    wiring = ["Room.SetTransientData->Set", "Room.SetTransientDataTTL->SetTTL", "Room.RemoveTransientData->Remove",
      "Room.AddSession->AddListener", "Room.RemoveSession->RemoveListener",
      "Hub.processTransientMsg->Room.SetTransientDataTTL", "Hub.processTransientMsg->Room.RemoveTransientData"] := by
  decide

/-! ## 1. Replicas converge

A listener starts from nothing when it joins, takes the `initial` snapshot if one is
sent, and applies every later `set` / `remove` in order.  After *every* sequence of
operations — sets with and without ttl, compare-and-sets, removes, joins, leaves,
expiries at any position, callbacks delayed behind other calls — every registered
listener's replica is the store. -/

theorem C14_replica_converges (ops : List Op) :
    let r := runV Cfg.current init (fun _ => []) ops
    ∀ l ∈ r.1.listeners, r.2 l = r.1.data := by
  intro r l hl
  exact Conv_runV Cfg.current ops init (fun _ => []) (by intro l hl; cases hl) l hl

/-- … in particular as maps. -/
theorem C14_replica_converges_map (ops : List Op) :
    let r := runV Cfg.current init (fun _ => []) ops
    ∀ l ∈ r.1.listeners, sameMap (r.2 l) r.1.data := by
  intro r l hl k
  rw [C14_replica_converges ops l hl]

/-- The step form, from any state in which the replicas are right (so: also for listeners that
joined long ago, and independent of how the state was reached). -/
theorem C14_replica_step (st : State) (view : Lid → Replica) (op : Op)
    (h : ∀ l ∈ st.listeners, view l = st.data) :
    ∀ l ∈ (step st op).st.listeners, viewStep view op (step st op).out l = (step st op).st.data :=
  Conv_step Cfg.current st view op h

/-- Non-vacuity: two listeners, one joining late (gets a snapshot), a value that expires, a value
whose ttl is cleared; both replicas equal the store, which is not empty. -/
example :
    let ops : List Op := [.addListener 1, .set "a" (some "x") 20, .set "b" (some "y") 30,
      .addListener 2, .set "b" (some "y") 0, .advance 50, .set "c" (some "z") 5]
    let r := runV Cfg.current init (fun _ => []) ops
    r.1.listeners = [2, 1] ∧ r.1.data = [("c", "z"), ("b", "y")] ∧ r.2 1 = r.1.data ∧ r.2 2 = r.1.data := by
  decide

/-! ## 2. Setting an unchanged value sends nothing (and anything sent means a change) -/

theorem C14_unchanged_silent (st : State) (k : Key) (v : Val) (ttl : Int)
    (h : kvGet st.data k = some v) :
    (step st (.set k (some v) ttl)).out = [] ∧ (step st (.set k (some v) ttl)).st.data = st.data ∧
    ∀ old, (step st (.cas k old (some v) ttl)).out = [] ∧
           (step st (.cas k old (some v) ttl)).st.data = st.data := by
  have hs : Cfg.repaired.setUnchangedSilent = true := rfl
  have hc : Cfg.repaired.casUnchangedSilent = true := rfl
  refine ⟨?_, ?_, fun old => ?_⟩
  · simp [step_eq, stepC, setTTL, h, hs]
  · simp [step_eq, stepC, setTTL, h, hs]
  · by_cases ho : old = some v
    · simp [step_eq, stepC, casTTL, h, hc, ho]
    · simp [step_eq, stepC, casTTL, h, ho]

/-- Conversely a changed value reaches every registered listener, once, with old and new value. -/
theorem C14_changed_notifies_all (st : State) (k : Key) (v : Val) (ttl : Int)
    (h : kvGet st.data k ≠ some v) :
    (step st (.set k (some v) ttl)).out = st.listeners.map (fun l => (l, Msg.set k v (kvGet st.data k))) ∧
    kvGet (step st (.set k (some v) ttl)).st.data k = some v := by
  have hs : Cfg.repaired.setUnchangedSilent = true := rfl
  constructor
  · simp [step_eq, stepC, setTTL, h, hs, doSet, notify]
  · simp [step_eq, stepC, setTTL, h, hs, doSet, kvGet_kvSet]

/-- Whatever a request (set, compare-and-set, remove, compare-and-remove) sends, it sends
because the data changed: no notification without a change of the map. -/
theorem C14_notification_means_change (st : State) (op : Op)
    (hop : match op with | .set .. => True | .cas .. => True | .remove _ => True | .casRemove .. => True | _ => False)
    (hout : (step st op).out ≠ []) : ¬ sameMap (step st op).st.data st.data := by
  have hs : Cfg.repaired.setUnchangedSilent = true := rfl
  have hc : Cfg.repaired.casUnchangedSilent = true := rfl
  -- the two ways of producing output
  have hSet : ∀ k v prev ttl, kvGet st.data k ≠ some v →
      ¬ sameMap (doSet Cfg.repaired st k v prev ttl).1.data st.data := by
    intro k v prev ttl hne hsame
    have := hsame k
    simp [doSet, kvGet_kvSet] at this
    exact hne this.symm
  have hRem : ∀ k prev, kvGet st.data k = some prev → ¬ sameMap (doRemove st k prev).1.data st.data := by
    intro k prev hk hsame
    have := hsame k
    simp [doRemove, kvGet_kvErase, hk] at this
  have hRemove : ∀ k, (remove st k).out ≠ [] → ¬ sameMap (remove st k).st.data st.data := by
    intro k ho
    unfold remove at ho ⊢
    cases hk : kvGet st.data k with
    | none => simp [hk] at ho
    | some prev => simpa [hk] using hRem k prev hk
  have hCar : ∀ k old, (compareAndRemove st k old).out ≠ [] →
      ¬ sameMap (compareAndRemove st k old).st.data st.data := by
    intro k old ho
    unfold compareAndRemove at ho ⊢
    cases hk : kvGet st.data k with
    | none => simp [hk] at ho
    | some prev =>
      by_cases hop : old = some prev
      · simpa [hk, hop] using hRem k prev hk
      · simp [hk, hop] at ho
  rw [step_eq] at hout ⊢
  cases op with
  | set k v ttl =>
    cases v with
    | none => exact hRemove k hout
    | some v =>
      simp only [stepC, setTTL, hs, Bool.true_and] at hout ⊢
      by_cases hp : kvGet st.data k = some v
      · simp [hp] at hout
      · simp only [hp, decide_false, Bool.false_eq_true, ite_false] at hout ⊢
        exact hSet k v _ ttl hp
  | cas k old v ttl =>
    cases v with
    | none => exact hCar k old hout
    | some v =>
      simp only [stepC, casTTL, hc, Bool.true_and] at hout ⊢
      by_cases ho : old = kvGet st.data k
      · by_cases hp : kvGet st.data k = some v
        · simp [ho, hp] at hout
        · simp only [ho, ne_eq, not_true_eq_false, ite_false, hp, decide_false, Bool.false_eq_true] at hout ⊢
          exact hSet k v _ ttl hp
      · simp [ho] at hout
  | remove k => exact hRemove k hout
  | casRemove k old => exact hCar k old hout
  | addListener l => cases hop
  | removeListener l => cases hop
  | get => cases hop
  | advance dt => cases hop
  | fire dt => cases hop
  | runCb id => cases hop

/-- Non-vacuity: a state with data and listeners; same value silent, other value not. -/
example :
    let st := run init [.addListener 1, .addListener 2, .set "a" (some "x") 20]
    (step st (.set "a" (some "x") 0)).out = [] ∧ (step st (.cas "a" (some "x") (some "x") 7)).out = [] ∧
    (step st (.set "a" (some "y") 0)).out = [(2, .set "a" "y" (some "x")), (1, .set "a" "y" (some "x"))] := by
  decide

/-! ## 3. TTLs are honoured and the latest request governs

`Spec.run` is the ideal store of the statement: per key the value and deadline fixed
by the latest request that took effect; `advance` removes exactly what is past its
deadline.  It has no timers.  For every sequence of API calls and quiescent passages
of time the model's data is the ideal store's data — at the end of the sequence,
hence (every prefix being such a sequence) at every moment. -/

theorem C14_ttl_governed_by_latest (ops : List Op) (hq : ∀ op ∈ ops, op.quiescent = true) :
    ∀ k, kvGet (run init ops).data k = (Spec.run {} ops).value k := by
  have gen : ∀ (ops : List Op) (st : State) (sp : Spec), RelS st sp → NoFired st →
      (∀ op ∈ ops, op.quiescent = true) →
      RelS (runC Cfg.repaired st ops) (Spec.run sp ops) := by
    intro ops
    induction ops with
    | nil => intro st sp h _ _; exact h
    | cons op ops ih =>
      intro st sp h hn hq
      obtain ⟨h1, h2⟩ := RelS_step_quiescent h hn op (hq op (List.mem_cons_self ..))
      exact ih _ _ h1 h2 (fun o ho => hq o (List.mem_cons_of_mem _ ho))
  intro k
  rw [run_eq]
  exact ((gen ops init {} RelS_init noFired_init hq).value_eq k).symm

/-- … and after a quiescent passage of time nothing in the store is past its deadline
("disappears once that time has passed"). -/
theorem C14_nothing_overdue (ops : List Op) (hq : ∀ op ∈ ops, op.quiescent = true) (k : Key) :
    (Spec.run {} ops).overdue (Spec.run {} ops).now k = false := by
  have gen : ∀ (ops : List Op) (st : State) (sp : Spec), RelS st sp → NoFired st →
      (∀ op ∈ ops, op.quiescent = true) →
      RelS (runC Cfg.repaired st ops) (Spec.run sp ops) ∧ NoFired (runC Cfg.repaired st ops) := by
    intro ops
    induction ops with
    | nil => intro st sp h hn _; exact ⟨h, hn⟩
    | cons op ops ih =>
      intro st sp h hn hq
      obtain ⟨h1, h2⟩ := RelS_step_quiescent h hn op (hq op (List.mem_cons_self ..))
      exact ih _ _ h1 h2 (fun o ho => hq o (List.mem_cons_of_mem _ ho))
  obtain ⟨h1, h2⟩ := gen ops init {} RelS_init noFired_init hq
  exact no_overdue_of_noFired h1 h2 k

/-- The ideal store spelled out on one key: the latest request fixes value and deadline … -/
theorem C14_spec_latest_governs (sp : Spec) (k : Key) (v : Val) (ttl : Int) :
    kvGet (sp.step (.set k (some v) ttl)).ents k =
      some ⟨v, if 0 < ttl then some (sp.now + ttl.toNat) else none⟩ := by
  simp [Spec.step, Spec.put, kvGet_kvSet, deadlineOf]

/-- … and time removes a key iff its deadline is reached. -/
theorem C14_spec_settle (sp : Spec) (dt : Nat) (k : Key) :
    (sp.settle dt).value k = if sp.overdue (sp.now + dt) k then none else sp.value k := by
  simp only [Spec.value, kvGet_settle]
  split <;> simp

theorem C14_spec_overdue_iff (sp : Spec) (now : Nat) (k : Key) :
    sp.overdue now k = true ↔ ∃ v d, kvGet sp.ents k = some ⟨v, some d⟩ ∧ d ≤ now := by
  unfold Spec.overdue
  cases h : kvGet sp.ents k with
  | none => simp
  | some e =>
    obtain ⟨v, d⟩ := e
    cases d with
    | none => simp [Entry.overdue]
    | some d =>
      simp only [Entry.overdue, decide_eq_true_eq, Option.some.injEq, Entry.mk.injEq]
      constructor
      · intro hd; exact ⟨v, d, ⟨rfl, rfl⟩, hd⟩
      · rintro ⟨_, _, ⟨_, rfl⟩, hd⟩; exact hd

/-- Non-vacuity, and the two histories of DESIGN §6 #11 on the model of the current source:
clearing the ttl keeps the value; `v(ttl) → w → v` keeps `v`; an extended ttl expires at the
new deadline only. -/
example :
    (run init [.set "a" (some "v") 20, .set "a" (some "v") 0, .advance 30]).data = [("a", "v")] ∧
    (run init [.set "a" (some "v") 20, .set "a" (some "w") 0, .set "a" (some "v") 0, .advance 30]).data
      = [("a", "v")] ∧
    (run init [.set "a" (some "v") 20, .advance 10, .set "a" (some "v") 20, .advance 15]).data = [("a", "v")] ∧
    (run init [.set "a" (some "v") 20, .advance 10, .set "a" (some "v") 20, .advance 15, .advance 5]).data = [] := by
  decide

/-! ### The pinned original violated it (proved counter-examples, replayed in `corpus/C14`) -/

/-- Original code: clearing the ttl of an unchanged value does not stop the expiry. -/
theorem C14_original_clear_still_expires :
    let ops : List Op := [.set "a" (some "v") 20, .set "a" (some "v") 0, .advance 30]
    (runC Cfg.original init ops).data = [] ∧ (Spec.run {} ops).value "a" = some "v" := by decide

/-- Original code: `v(ttl) → w → v` is deleted at the old deadline (compare-by-value ABA). -/
theorem C14_original_aba_expires :
    let ops : List Op := [.set "a" (some "v") 20, .set "a" (some "w") 0, .set "a" (some "v") 0, .advance 30]
    (runC Cfg.original init ops).data = [] ∧ (Spec.run {} ops).value "a" = some "v" := by decide

/-- Stopping timers alone is not enough: a callback that has already fired when the ttl is
extended (it waits for the mutex behind the `SetTTL`) would still delete the value if it did
not check that it is the current timer. -/
theorem C14_late_callback_needs_identity_check :
    let ops : List Op := [.set "a" (some "v") 20, .fire 20, .set "a" (some "v") 100, .runCb 0]
    (runC { Cfg.repaired with expiryChecksCurrent := false } init ops).data = [] ∧
    (runC Cfg.repaired init ops).data = [("a", "v")] := by decide

/-- Original code: compare-and-set to the stored value notified the listeners. -/
theorem C14_original_cas_unchanged_notifies :
    (stepC Cfg.original (runC Cfg.original init [.addListener 1, .set "a" (some "v") 0])
      (.cas "a" (some "v") (some "v") 0)).out = [(1, .set "a" "v" (some "v"))] := by decide

/-! ## 4. Every timing of the expiry callback

`fire` lets time pass and timers fire without their callbacks having run; `runCb id`
runs one waiting callback — at any later position, in any order, also after the timer
has been stopped or replaced.  `specStepA` gives each model step its meaning for the
ideal store: an API call is the request, `fire` is time passing, a callback that is
still the governing timer of its key is the expiry of that key (`Spec.expire`, which
itself acts only when the deadline is reached), any other callback is nothing. -/

def runA : State → Spec → List Op → State × Spec
  | st, sp, [] => (st, sp)
  | st, sp, op :: ops => runA (step st op).st (specStepA st sp op) ops

theorem C14_ttl_async (ops : List Op) :
    let r := runA init {} ops
    (∀ k, kvGet r.1.data k = r.2.value k) ∧
    ((∀ t ∈ r.1.timers, t.fired = false) → ∀ k, r.2.overdue r.2.now k = false) := by
  have gen : ∀ (ops : List Op) (st : State) (sp : Spec), RelS st sp →
      RelS (runA st sp ops).1 (runA st sp ops).2 := by
    intro ops
    induction ops with
    | nil => intro st sp h; exact h
    | cons op ops ih =>
      intro st sp h
      simp only [runA]
      apply ih
      rw [step_eq]
      exact RelS_stepA h op
  have h := gen ops init {} RelS_init
  exact ⟨fun k => (h.value_eq k).symm, fun hn k => no_overdue_of_noFired h hn k⟩

/-- The only way a value disappears without a request is the expiry of its key at or after the
deadline that the latest request gave it. -/
theorem C14_expiry_not_before_deadline (sp : Spec) (k k' : Key) :
    (sp.expire k).value k' =
      if k' = k ∧ sp.overdue sp.now k = true then none else sp.value k' := by
  unfold Spec.expire Spec.overdue Spec.value
  cases h : kvGet sp.ents k with
  | none => simp
  | some e =>
    by_cases ho : e.overdue sp.now = true
    · simp only [ho, ite_true, Spec.del, kvGet_kvErase, and_true]
      by_cases hk : k' = k <;> simp [hk]
    · simp [ho]

theorem C14_callback_is_expiry_or_nothing (st : State) (sp : Spec) (id : Nat) :
    specStepA st sp (.runCb id) = sp ∨ ∃ k, specStepA st sp (.runCb id) = sp.expire k := by
  simp only [specStepA, specCb]
  split
  · exact Or.inl rfl
  · split
    · exact Or.inr ⟨_, rfl⟩
    · exact Or.inl rfl

/-- Non-vacuity: a delayed callback of a superseded timer does nothing, a delayed callback of the
governing timer expires the key, and in both cases model and ideal store agree. -/
example :
    let a := runA init {} [.set "a" (some "v") 20, .fire 25, .set "a" (some "v") 100, .runCb 0]
    let b := runA init {} [.set "a" (some "v") 20, .fire 25, .set "b" (some "w") 0, .runCb 0]
    a.1.data = [("a", "v")] ∧ a.2.value "a" = some "v" ∧
    b.1.data = [("b", "w")] ∧ b.2.value "a" = none ∧ b.2.value "b" = some "w" := by
  decide

/-! ## 5. The embedding: the listeners of a room's data are the sessions in that room

`Model/TransientRooms.lean`: room objects (each with its own store), sessions, the hub's
table of rooms; a room object whose last session left, or that the backend deleted, is
forgotten by the hub while its store — and its armed TTL timers — lives on.  A stale
listener of such a store is told about an expiry that belongs to a room it is no longer
in: the replica of the room it *is* in diverges.  The theorems are about the listener
*set* of every store, at every moment, for every sequence of joins, leaves, room
switches, session closes, sets, removes, room deletions and passages of time. -/


/-- Where the source touches a room's store: one field, mentioned by methods of `Room` only (the store is
not handed out); listeners are added in `Room.AddSession` and nowhere else in the package, removed in
`Room.RemoveSession` (and at most, besides, in `Room.Close`); a session leaves its room through
`Room.RemoveSession` on every way out (leave, switch, close, room deleted) and joins through
`Room.AddSession` after having left the previous room; every room object gets a fresh store. -/
theorem C14_listener_call_sites :
    addListenerSites = ["room.go:Room.AddSession"] ∧
    "room.go:Room.RemoveSession" ∈ removeListenerSites ∧
    removeListenerSites.all (fun s => s == "room.go:Room.RemoveSession" || s == "room.go:Room.Close") = true ∧
    transientDataFields = ["Room.transientData"] ∧ transientDataUsersOutsideRoom = [] ∧
    embeddingFlow = ["ClientSession.doLeaveRoom->Room.RemoveSession", "ClientSession.doLeaveRoom:SetRoom(nil)<RemoveSession",
      "ClientSession.LeaveRoomWithMessage->doLeaveRoom", "ClientSession.SetFederationClient->doLeaveRoom",
      "ClientSession.LeaveRoom->LeaveRoomWithMessage", "ClientSession.closeAndWait->Hub.removeSession",
      "Hub.removeSession->LeaveRoom", "Hub.processJoinRoom:LeaveRoom<AddSession", "Hub.processJoinRoom:SetRoom<AddSession",
      "Hub.processRoom->LeaveRoomWithMessage", "Hub.processRoom:HasSession<processJoinRoom",
      "Hub.processRoomDeleted:Room.Close<LeaveRoom", "NewRoom:transientData=NewTransientData()"] := by decide

/-- On *every* control-flow path of `Room.AddSession` that a client session new to the room can take the
session is registered, and on every path of `Room.RemoveSession` that takes it out of `r.sessions` —
other sessions remaining or not — it is unregistered (read off the extracted paths). -/
theorem C14_membership_paths_register : Emb.current.Ok := ⟨by decide, by decide, by decide⟩

/-- The last session leaving is what closes the room (`r.hub.removeRoom`, `r.doClose`), nothing else in
`RemoveSession` does. -/
theorem C14_last_leave_closes_room :
    allPass removeSessionPaths (fun p => p.contains "-others") ["removeRoom"] = true ∧
    allPass removeSessionPaths (fun p => p.contains "-others") ["close"] = true ∧
    (removeSessionPaths.filter (fun p => p.contains "+others" || p.contains "+absent")).all
      (fun p => !p.contains "removeRoom" && !p.contains "close") = true := by decide

/-- The invariant, spelled out. -/
def ListenersAreMembers (w : World) : Prop :=
  (∀ o ∈ w.objs, (∀ l, l ∈ o.td.listeners ↔ l ∈ o.members) ∧ (o.live = false → o.td.listeners = [])) ∧
  (∀ s i, w.roomOf s = some i ↔ ∃ o ∈ w.objs, o.oid = i ∧ s ∈ o.members) ∧
  (∀ a ∈ w.objs, ∀ b ∈ w.objs, ∀ s, s ∈ a.members → s ∈ b.members → a = b)

theorem ListenersAreMembers_of_Inv {w : World} (h : Inv w) : ListenersAreMembers w := by
  refine ⟨fun o ho => ⟨h.lm o ho, fun hd => ?_⟩, fun s i => ⟨h.room_mem s i, ?_⟩,
    fun a ha b hb s hsa hsb => h.member_unique ha hb hsa hsb⟩
  · have hm := h.dead o ho hd
    rw [List.eq_nil_iff_forall_not_mem]
    intro l hl
    have := (h.lm o ho l).mp hl
    rw [hm] at this; cases this
  · rintro ⟨o, ho, hoid, hmem⟩
    rw [← hoid]; exact h.mem_room o ho s hmem

/-- … and when the backend deletes a room, `Room.Close` unregisters the sessions it drops (every client
path through the loop over `r.sessions` passes `RemoveListener`; repaired in /repo, finding
`C14-room-delete-keeps-listeners` — before, `Close` emptied `r.sessions` and the `RemoveSession` that
followed returned early). -/
theorem C14_room_delete_unregisters : (Emb.current.closeUnreg || Emb.current.absentUnreg) = true := by decide

theorem C14_embedding_sound : Emb.current.sound = true := by decide

/-- **Listener set = member set**, for every source that registers on join, unregisters on every way of
leaving *and* when the backend deletes the room: after every sequence of operations the listeners of every
room object's store are exactly the sessions in that room object, a forgotten room object has no listeners
at all, a session's room pointer is the one object that lists it, and no session is in two. -/
theorem C14_listeners_are_members_of_sound (c : Cfg) (e : Emb) (he : e.Ok)
    (hd : (e.closeUnreg || e.absentUnreg) = true) (ops : List ROp) :
    ListenersAreMembers (runW c e World.init ops) := by
  have := (Good_run c he ops (Or.inr hd) Inv_init (WConv_init (fun _ => []))).1
  rw [runWV_fst] at this
  exact ListenersAreMembers_of_Inv this

/-- The current source, every history (joins, leaves, room switches, session closes, client and bus
requests, room deletions by the backend, passages of time). -/
theorem C14_listeners_are_members (ops : List ROp) :
    ListenersAreMembers (runW Cfg.current Emb.current World.init ops) :=
  C14_listeners_are_members_of_sound Cfg.current Emb.current C14_membership_paths_register
    C14_room_delete_unregisters ops

/-- **Every session's replica is the data of the room it is in** — emptied when it joins a room, then the
snapshot (if one is sent) and every notification applied in order — after every sequence of operations. -/
theorem C14_room_replica_converges_of_sound (c : Cfg) (e : Emb) (he : e.Ok)
    (hd : (e.closeUnreg || e.absentUnreg) = true) (ops : List ROp) :
    let r := runWV c e World.init (fun _ => []) ops
    ∀ s i, r.1.roomOf s = some i → ∃ o ∈ r.1.objs, o.oid = i ∧ r.2 s = o.td.data := by
  intro r s i hr
  obtain ⟨hi, hc⟩ := Good_run c he ops (Or.inr hd) Inv_init (WConv_init (fun _ => []))
  obtain ⟨o, ho, hoid, hmem⟩ := hi.room_mem s i hr
  exact ⟨o, ho, hoid, hc o ho s hmem⟩

/-- The current source, every history. -/
theorem C14_room_replica_converges (ops : List ROp) :
    let r := runWV Cfg.current Emb.current World.init (fun _ => []) ops
    ∀ s i, r.1.roomOf s = some i → ∃ o ∈ r.1.objs, o.oid = i ∧ r.2 s = o.td.data :=
  C14_room_replica_converges_of_sound Cfg.current Emb.current C14_membership_paths_register
    C14_room_delete_unregisters ops

/-- Without the unregistration on room deletion the statements still hold for histories in which the
backend deletes no room (what could be said about the tree before the repair). -/
theorem C14_listeners_are_members_without_delete (c : Cfg) (e : Emb) (he : e.Ok) (ops : List ROp)
    (hdel : ∀ op ∈ ops, op.isDel = false) : ListenersAreMembers (runW c e World.init ops) := by
  have := (Good_run c he ops (Or.inl hdel) Inv_init (WConv_init (fun _ => []))).1
  rw [runWV_fst] at this
  exact ListenersAreMembers_of_Inv this

/-- Every room object's store — also of rooms closed meanwhile — is a run of store operations (API calls
and quiescent passages of time) from the empty store, so §1–§3 hold for each of them; in particular its
data is the ideal store of that run: TTLs honoured, the latest request governs. -/
theorem C14_room_stores_are_store_runs (e : Emb) (ops : List ROp) :
    ∀ o ∈ (runW Cfg.current e World.init ops).objs,
      ∃ sops, (∀ op ∈ sops, op.quiescent = true) ∧ o.td = run init sops ∧
        ∀ k, kvGet o.td.data k = (Spec.run {} sops).value k := by
  intro o ho
  obtain ⟨sops, hrun, hq⟩ := Hist_run Cfg.current e ops (Hist_init Cfg.current) o ho
  refine ⟨sops, hq, hrun, fun k => ?_⟩
  rw [hrun]
  exact C14_ttl_governed_by_latest sops hq k

/-- Non-vacuity: two sessions, a ttl pending while the last one leaves and the room is taken again, a
switch to the other room; the invariant's objects exist, replicas are right, the old store expired alone. -/
example :
    let ops : List ROp := [.join 0 1, .join 1 1, .set 0 "a" (some "x") 20, .leave 0, .join 1 2,
      .join 0 1, .set 0 "a" (some "y") 0, .bset 2 "b" "z" 30, .adv 25]
    let r := runWV Cfg.current Emb.current World.init (fun _ => []) ops
    r.1.objs.map (fun o => (o.rid, o.live, o.members, o.td.listeners)) =
      [(1, false, [], []), (2, true, [1], [1]), (1, true, [0], [0])] ∧
    r.1.objs.map (fun o => o.td.data) = [[], [("b", "z")], [("a", "y")]] ∧
    r.2 0 = [("a", "y")] ∧ r.2 1 = [("b", "z")] ∧ r.1.roomOf 0 = some 2 ∧ r.1.roomOf 1 = some 1 := by
  decide

/-- … and with the backend deleting the room while a ttl is pending: the deleted room object keeps its
store and timer but no listener; the session, in the re-created room, hears nothing of the old expiry. -/
example :
    let ops : List ROp := [.join 0 1, .set 0 "a" (some "v") 20, .del 1, .join 0 1, .set 0 "a" (some "v") 0]
    let w := runW Cfg.current Emb.current World.init ops
    w.objs.map (fun o => (o.live, o.members, o.td.listeners)) = [(false, [], []), (true, [0], [0])] ∧
    (stepR w (.adv 25)).out = [] ∧
    (stepR w (.adv 25)).w.objs.map (fun o => (o.live, o.td.data)) = [(false, []), (true, [("a", "v")])] := by
  decide

/-- The hypothesis on the last-leave path is necessary (what the seeded change C14-4 does): if the last
session to leave is not unregistered, the closed room's pending expiry reaches it in the room it is in
now — it is told to remove a value that room still has. -/
theorem C14_last_leave_must_unregister :
    let e : Emb := { joinRegisters := true, leaveOthersUnreg := true, leaveLastUnreg := false,
                     absentUnreg := true, closeUnreg := true }
    let w := runW Cfg.repaired e World.init
      [.join 0 1, .set 0 "a" (some "v") 20, .leave 0, .join 0 1, .set 0 "a" (some "v") 0]
    w.objs.map (fun o => (o.live, o.members, o.td.listeners)) = [(false, [], [0]), (true, [0], [0])] ∧
    (stepW Cfg.repaired e w (.adv 25)).out = [(0, .remove "a" "v")] ∧
    (stepW Cfg.repaired e w (.adv 25)).w.objs.map (fun o => (o.live, o.td.data)) =
      [(false, []), (true, [("a", "v")])] := by decide

/-- The unrepaired shape (`Emb.asFound`: the tree before the repair of `Room.Close`; the history is
`corpus/C14/room-deleted-keeps-listener.jsonl`, which showed exactly this on that tree): the backend deletes
the room while a ttl is pending; the session joins the room again (a new object) and sets the key without
ttl; the old deadline passes: the deleted room's store still lists the session and tells it to remove the
value.  So the hypothesis on room deletion is necessary, too. -/
theorem C14_room_delete_keeps_listener :
    let w := runW Cfg.repaired Emb.asFound World.init
      [.join 0 1, .set 0 "a" (some "v") 20, .del 1, .join 0 1, .set 0 "a" (some "v") 0]
    w.objs.map (fun o => (o.live, o.members, o.td.listeners)) = [(false, [], [0]), (true, [0], [0])] ∧
    (stepW Cfg.repaired Emb.asFound w (.adv 25)).out = [(0, .remove "a" "v")] ∧
    (stepW Cfg.repaired Emb.asFound w (.adv 25)).w.objs.map (fun o => (o.live, o.td.data)) =
      [(false, []), (true, [("a", "v")])] := by decide

end SigModel.Transient
