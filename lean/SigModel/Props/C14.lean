/-
C14 — Transient room data: listeners converge to the room's data; TTLs are honoured.
-/
import SigModel.Lemmas.Transient

namespace SigModel.Transient
open SigModel.Generated.Transient

/-- The current source is the repaired code: the three places of DESIGN §6 #11 and the
compare-and-set notification, as read by the extractor. -/
theorem C14_source_is_repaired : Cfg.current = Cfg.repaired := by decide

end SigModel.Transient
