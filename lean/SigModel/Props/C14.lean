/-
C14 — Transient room data: listeners converge to the room's data; TTLs are honoured.

Property theorems about the model of `transient_data.go` (`Model/Transient.lean`),
which is defined over the facts regenerated from the current source
(`Generated/Transient.lean`), stated against the ideal store and the listener
replicas of `Spec/Transient.lean`.

Whole API calls and the timer callback run under the store mutex
(`C14_atomic_ops`), so a run of several goroutines is a sequence of `Op`s; the
theorems quantify over *all* such sequences, the timing of expiry relative to
the calls being the position of `advance` (quiescent) or of `fire` / `runCb`
(a callback that has fired but is still waiting for the mutex) in the list.
-/
import SigModel.Lemmas.Transient

namespace SigModel.Transient
open SigModel.Generated.Transient

/-! ## 0. What the source is -/

/-- The current source is the repaired code: the three places of DESIGN §6 #11
(`updateTTL` stops the timer, `removeAfterTTL` stops the previous timer before its
early return, the expiry callback checks that it is still the current timer) and
the silent compare-and-set to the stored value — as read by the extractor.
Reverting any of them in `/repo` makes this (and everything below) fail. -/
theorem C14_source_is_repaired : Cfg.current = Cfg.repaired := by decide

theorem step_eq (st : State) (op : Op) : step st op = stepC Cfg.repaired st op := by
  unfold step; rw [C14_source_is_repaired]

theorem run_eq (st : State) (ops : List Op) : run st ops = runC Cfg.repaired st ops := by
  unfold run; rw [C14_source_is_repaired]

/-- Every exported method of `TransientData` is one critical section (or a plain delegation to
one): of the store mutex `t.mu`, except `RemoveListener`, whose critical section is the listener
set's own mutex.  The expiry callback takes `t.mu`, a `nil` value means remove, and the only
senders `notifySet` / `notifyDeleted` are reached from `doSet` / `doRemove` alone — so a whole
`Op` of the model is one atomic step, and delivery order is commit order. -/
theorem C14_atomic_ops :
    atomicMethods = exportedMethods ∧
    exportedMethods = ["AddListener", "CompareAndRemove", "CompareAndSet", "CompareAndSetTTL", "GetData",
      "Remove", "RemoveListener", "Set", "SetTTL"] ∧
    otherLockMethods = ["RemoveListener:listenersMu"] ∧
    notifyCallers = ["doRemove->notifyDeleted", "doSet->notifySet"] ∧
    expiryCallbackLocked = true ∧ setNilRemoves = true ∧ casNilRemoves = true := by decide

/-- The listener set lives under a leaf mutex: every access to `t.listeners` is inside a
`t.listenersMu` section, no such section calls anything but map / slice builtins, and
`RemoveListener` takes no other lock.  A listener whose `SendMessage` takes a lock that is also
held while it is being removed (session mutex: `LeaveRoom` → `RemoveSession` → `RemoveListener`)
can therefore not close a cycle through `t.mu` (the deadlock of the pinned tree, fixed in 001c654). -/
theorem C14_listener_lock_is_leaf :
    listenerSetUsers = ["AddListener", "RemoveListener", "getListeners"] ∧
    listenerSetUnguarded = [] ∧ listenersMuCallsOut = [] ∧
    otherLockMethods = ["RemoveListener:listenersMu"] := by decide

/-- `room.go` / `hub.go` reach the store only through these delegations: the room's setters are
one-line calls, sessions are registered as listeners on join and unregistered on leave. -/
theorem C14_wiring :
    wiring = ["Room.SetTransientData->Set", "Room.SetTransientDataTTL->SetTTL", "Room.RemoveTransientData->Remove",
      "Room.AddSession->AddListener", "Room.RemoveSession->RemoveListener",
      "Hub.processTransientMsg->Room.SetTransientDataTTL", "Hub.processTransientMsg->Room.RemoveTransientData"] := by
  decide

/-! ## 1. Replicas converge

A listener starts from nothing when it joins, takes the `initial` snapshot if one is
sent, and applies every later `set` / `remove` in order.  After *every* sequence of
operations — sets with and without ttl, compare-and-sets, removes, joins, leaves,
expiries at any position, callbacks delayed behind other calls — every registered
listener's replica is the store. -/

theorem C14_replica_converges (ops : List Op) :
    let r := runV Cfg.current init (fun _ => []) ops
    ∀ l ∈ r.1.listeners, r.2 l = r.1.data := by
  intro r l hl
  exact Conv_runV Cfg.current ops init (fun _ => []) (by intro l hl; cases hl) l hl

/-- … in particular as maps. -/
theorem C14_replica_converges_map (ops : List Op) :
    let r := runV Cfg.current init (fun _ => []) ops
    ∀ l ∈ r.1.listeners, sameMap (r.2 l) r.1.data := by
  intro r l hl k
  rw [C14_replica_converges ops l hl]

/-- The step form, from any state in which the replicas are right (so: also for listeners that
joined long ago, and independent of how the state was reached). -/
theorem C14_replica_step (st : State) (view : Lid → Replica) (op : Op)
    (h : ∀ l ∈ st.listeners, view l = st.data) :
    ∀ l ∈ (step st op).st.listeners, viewStep view op (step st op).out l = (step st op).st.data :=
  Conv_step Cfg.current st view op h

/-- Non-vacuity: two listeners, one joining late (gets a snapshot), a value that expires, a value
whose ttl is cleared; both replicas equal the store, which is not empty. -/
example :
    let ops : List Op := [.addListener 1, .set "a" (some "x") 20, .set "b" (some "y") 30,
      .addListener 2, .set "b" (some "y") 0, .advance 50, .set "c" (some "z") 5]
    let r := runV Cfg.current init (fun _ => []) ops
    r.1.listeners = [2, 1] ∧ r.1.data = [("c", "z"), ("b", "y")] ∧ r.2 1 = r.1.data ∧ r.2 2 = r.1.data := by
  decide

/-! ## 2. Setting an unchanged value sends nothing (and anything sent means a change) -/

theorem C14_unchanged_silent (st : State) (k : Key) (v : Val) (ttl : Int)
    (h : kvGet st.data k = some v) :
    (step st (.set k (some v) ttl)).out = [] ∧ (step st (.set k (some v) ttl)).st.data = st.data ∧
    ∀ old, (step st (.cas k old (some v) ttl)).out = [] ∧
           (step st (.cas k old (some v) ttl)).st.data = st.data := by
  have hs : Cfg.repaired.setUnchangedSilent = true := rfl
  have hc : Cfg.repaired.casUnchangedSilent = true := rfl
  refine ⟨?_, ?_, fun old => ?_⟩
  · simp [step_eq, stepC, setTTL, h, hs]
  · simp [step_eq, stepC, setTTL, h, hs]
  · by_cases ho : old = some v
    · simp [step_eq, stepC, casTTL, h, hc, ho]
    · simp [step_eq, stepC, casTTL, h, ho]

/-- Conversely a changed value reaches every registered listener, once, with old and new value. -/
theorem C14_changed_notifies_all (st : State) (k : Key) (v : Val) (ttl : Int)
    (h : kvGet st.data k ≠ some v) :
    (step st (.set k (some v) ttl)).out = st.listeners.map (fun l => (l, Msg.set k v (kvGet st.data k))) ∧
    kvGet (step st (.set k (some v) ttl)).st.data k = some v := by
  have hs : Cfg.repaired.setUnchangedSilent = true := rfl
  constructor
  · simp [step_eq, stepC, setTTL, h, hs, doSet, notify]
  · simp [step_eq, stepC, setTTL, h, hs, doSet, kvGet_kvSet]

/-- Whatever a request (set, compare-and-set, remove, compare-and-remove) sends, it sends
because the data changed: no notification without a change of the map. -/
theorem C14_notification_means_change (st : State) (op : Op)
    (hop : match op with | .set .. => True | .cas .. => True | .remove _ => True | .casRemove .. => True | _ => False)
    (hout : (step st op).out ≠ []) : ¬ sameMap (step st op).st.data st.data := by
  have hs : Cfg.repaired.setUnchangedSilent = true := rfl
  have hc : Cfg.repaired.casUnchangedSilent = true := rfl
  -- the two ways of producing output
  have hSet : ∀ k v prev ttl, kvGet st.data k ≠ some v →
      ¬ sameMap (doSet Cfg.repaired st k v prev ttl).1.data st.data := by
    intro k v prev ttl hne hsame
    have := hsame k
    simp [doSet, kvGet_kvSet] at this
    exact hne this.symm
  have hRem : ∀ k prev, kvGet st.data k = some prev → ¬ sameMap (doRemove st k prev).1.data st.data := by
    intro k prev hk hsame
    have := hsame k
    simp [doRemove, kvGet_kvErase, hk] at this
  have hRemove : ∀ k, (remove st k).out ≠ [] → ¬ sameMap (remove st k).st.data st.data := by
    intro k ho
    unfold remove at ho ⊢
    cases hk : kvGet st.data k with
    | none => simp [hk] at ho
    | some prev => simpa [hk] using hRem k prev hk
  have hCar : ∀ k old, (compareAndRemove st k old).out ≠ [] →
      ¬ sameMap (compareAndRemove st k old).st.data st.data := by
    intro k old ho
    unfold compareAndRemove at ho ⊢
    cases hk : kvGet st.data k with
    | none => simp [hk] at ho
    | some prev =>
      by_cases hop : old = some prev
      · simpa [hk, hop] using hRem k prev hk
      · simp [hk, hop] at ho
  rw [step_eq] at hout ⊢
  cases op with
  | set k v ttl =>
    cases v with
    | none => exact hRemove k hout
    | some v =>
      simp only [stepC, setTTL, hs, Bool.true_and] at hout ⊢
      by_cases hp : kvGet st.data k = some v
      · simp [hp] at hout
      · simp only [hp, decide_false, Bool.false_eq_true, ite_false] at hout ⊢
        exact hSet k v _ ttl hp
  | cas k old v ttl =>
    cases v with
    | none => exact hCar k old hout
    | some v =>
      simp only [stepC, casTTL, hc, Bool.true_and] at hout ⊢
      by_cases ho : old = kvGet st.data k
      · by_cases hp : kvGet st.data k = some v
        · simp [ho, hp] at hout
        · simp only [ho, ne_eq, not_true_eq_false, ite_false, hp, decide_false, Bool.false_eq_true] at hout ⊢
          exact hSet k v _ ttl hp
      · simp [ho] at hout
  | remove k => exact hRemove k hout
  | casRemove k old => exact hCar k old hout
  | addListener l => cases hop
  | removeListener l => cases hop
  | get => cases hop
  | advance dt => cases hop
  | fire dt => cases hop
  | runCb id => cases hop

/-- Non-vacuity: a state with data and listeners; same value silent, other value not. -/
example :
    let st := run init [.addListener 1, .addListener 2, .set "a" (some "x") 20]
    (step st (.set "a" (some "x") 0)).out = [] ∧ (step st (.cas "a" (some "x") (some "x") 7)).out = [] ∧
    (step st (.set "a" (some "y") 0)).out = [(2, .set "a" "y" (some "x")), (1, .set "a" "y" (some "x"))] := by
  decide

/-! ## 3. TTLs are honoured and the latest request governs

`Spec.run` is the ideal store of the statement: per key the value and deadline fixed
by the latest request that took effect; `advance` removes exactly what is past its
deadline.  It has no timers.  For every sequence of API calls and quiescent passages
of time the model's data is the ideal store's data — at the end of the sequence,
hence (every prefix being such a sequence) at every moment. -/

theorem C14_ttl_governed_by_latest (ops : List Op) (hq : ∀ op ∈ ops, op.quiescent = true) :
    ∀ k, kvGet (run init ops).data k = (Spec.run {} ops).value k := by
  have gen : ∀ (ops : List Op) (st : State) (sp : Spec), RelS st sp → NoFired st →
      (∀ op ∈ ops, op.quiescent = true) →
      RelS (runC Cfg.repaired st ops) (Spec.run sp ops) := by
    intro ops
    induction ops with
    | nil => intro st sp h _ _; exact h
    | cons op ops ih =>
      intro st sp h hn hq
      obtain ⟨h1, h2⟩ := RelS_step_quiescent h hn op (hq op (List.mem_cons_self ..))
      exact ih _ _ h1 h2 (fun o ho => hq o (List.mem_cons_of_mem _ ho))
  intro k
  rw [run_eq]
  exact ((gen ops init {} RelS_init noFired_init hq).value_eq k).symm

/-- … and after a quiescent passage of time nothing in the store is past its deadline
("disappears once that time has passed"). -/
theorem C14_nothing_overdue (ops : List Op) (hq : ∀ op ∈ ops, op.quiescent = true) (k : Key) :
    (Spec.run {} ops).overdue (Spec.run {} ops).now k = false := by
  have gen : ∀ (ops : List Op) (st : State) (sp : Spec), RelS st sp → NoFired st →
      (∀ op ∈ ops, op.quiescent = true) →
      RelS (runC Cfg.repaired st ops) (Spec.run sp ops) ∧ NoFired (runC Cfg.repaired st ops) := by
    intro ops
    induction ops with
    | nil => intro st sp h hn _; exact ⟨h, hn⟩
    | cons op ops ih =>
      intro st sp h hn hq
      obtain ⟨h1, h2⟩ := RelS_step_quiescent h hn op (hq op (List.mem_cons_self ..))
      exact ih _ _ h1 h2 (fun o ho => hq o (List.mem_cons_of_mem _ ho))
  obtain ⟨h1, h2⟩ := gen ops init {} RelS_init noFired_init hq
  exact no_overdue_of_noFired h1 h2 k

/-- The ideal store spelled out on one key: the latest request fixes value and deadline … -/
theorem C14_spec_latest_governs (sp : Spec) (k : Key) (v : Val) (ttl : Int) :
    kvGet (sp.step (.set k (some v) ttl)).ents k =
      some ⟨v, if 0 < ttl then some (sp.now + ttl.toNat) else none⟩ := by
  simp [Spec.step, Spec.put, kvGet_kvSet, deadlineOf]

/-- … and time removes a key iff its deadline is reached. -/
theorem C14_spec_settle (sp : Spec) (dt : Nat) (k : Key) :
    (sp.settle dt).value k = if sp.overdue (sp.now + dt) k then none else sp.value k := by
  simp only [Spec.value, kvGet_settle]
  split <;> simp

theorem C14_spec_overdue_iff (sp : Spec) (now : Nat) (k : Key) :
    sp.overdue now k = true ↔ ∃ v d, kvGet sp.ents k = some ⟨v, some d⟩ ∧ d ≤ now := by
  unfold Spec.overdue
  cases h : kvGet sp.ents k with
  | none => simp
  | some e =>
    obtain ⟨v, d⟩ := e
    cases d with
    | none => simp [Entry.overdue]
    | some d =>
      simp only [Entry.overdue, decide_eq_true_eq, Option.some.injEq, Entry.mk.injEq]
      constructor
      · intro hd; exact ⟨v, d, ⟨rfl, rfl⟩, hd⟩
      · rintro ⟨_, _, ⟨_, rfl⟩, hd⟩; exact hd

/-- Non-vacuity, and the two histories of DESIGN §6 #11 on the model of the current source:
clearing the ttl keeps the value; `v(ttl) → w → v` keeps `v`; an extended ttl expires at the
new deadline only. -/
example :
    (run init [.set "a" (some "v") 20, .set "a" (some "v") 0, .advance 30]).data = [("a", "v")] ∧
    (run init [.set "a" (some "v") 20, .set "a" (some "w") 0, .set "a" (some "v") 0, .advance 30]).data
      = [("a", "v")] ∧
    (run init [.set "a" (some "v") 20, .advance 10, .set "a" (some "v") 20, .advance 15]).data = [("a", "v")] ∧
    (run init [.set "a" (some "v") 20, .advance 10, .set "a" (some "v") 20, .advance 15, .advance 5]).data = [] := by
  decide

/-! ### The pinned original violated it (proved counter-examples, replayed in `corpus/C14`) -/

/-- Original code: clearing the ttl of an unchanged value does not stop the expiry. -/
theorem C14_original_clear_still_expires :
    let ops : List Op := [.set "a" (some "v") 20, .set "a" (some "v") 0, .advance 30]
    (runC Cfg.original init ops).data = [] ∧ (Spec.run {} ops).value "a" = some "v" := by decide

/-- Original code: `v(ttl) → w → v` is deleted at the old deadline (compare-by-value ABA). -/
theorem C14_original_aba_expires :
    let ops : List Op := [.set "a" (some "v") 20, .set "a" (some "w") 0, .set "a" (some "v") 0, .advance 30]
    (runC Cfg.original init ops).data = [] ∧ (Spec.run {} ops).value "a" = some "v" := by decide

/-- Stopping timers alone is not enough: a callback that has already fired when the ttl is
extended (it waits for the mutex behind the `SetTTL`) would still delete the value if it did
not check that it is the current timer. -/
theorem C14_late_callback_needs_identity_check :
    let ops : List Op := [.set "a" (some "v") 20, .fire 20, .set "a" (some "v") 100, .runCb 0]
    (runC { Cfg.repaired with expiryChecksCurrent := false } init ops).data = [] ∧
    (runC Cfg.repaired init ops).data = [("a", "v")] := by decide

/-- Original code: compare-and-set to the stored value notified the listeners. -/
theorem C14_original_cas_unchanged_notifies :
    (stepC Cfg.original (runC Cfg.original init [.addListener 1, .set "a" (some "v") 0])
      (.cas "a" (some "v") (some "v") 0)).out = [(1, .set "a" "v" (some "v"))] := by decide

/-! ## 4. Every timing of the expiry callback

`fire` lets time pass and timers fire without their callbacks having run; `runCb id`
runs one waiting callback — at any later position, in any order, also after the timer
has been stopped or replaced.  `specStepA` gives each model step its meaning for the
ideal store: an API call is the request, `fire` is time passing, a callback that is
still the governing timer of its key is the expiry of that key (`Spec.expire`, which
itself acts only when the deadline is reached), any other callback is nothing. -/

def runA : State → Spec → List Op → State × Spec
  | st, sp, [] => (st, sp)
  | st, sp, op :: ops => runA (step st op).st (specStepA st sp op) ops

theorem C14_ttl_async (ops : List Op) :
    let r := runA init {} ops
    (∀ k, kvGet r.1.data k = r.2.value k) ∧
    ((∀ t ∈ r.1.timers, t.fired = false) → ∀ k, r.2.overdue r.2.now k = false) := by
  have gen : ∀ (ops : List Op) (st : State) (sp : Spec), RelS st sp →
      RelS (runA st sp ops).1 (runA st sp ops).2 := by
    intro ops
    induction ops with
    | nil => intro st sp h; exact h
    | cons op ops ih =>
      intro st sp h
      simp only [runA]
      apply ih
      rw [step_eq]
      exact RelS_stepA h op
  have h := gen ops init {} RelS_init
  exact ⟨fun k => (h.value_eq k).symm, fun hn k => no_overdue_of_noFired h hn k⟩

/-- The only way a value disappears without a request is the expiry of its key at or after the
deadline that the latest request gave it. -/
theorem C14_expiry_not_before_deadline (sp : Spec) (k k' : Key) :
    (sp.expire k).value k' =
      if k' = k ∧ sp.overdue sp.now k = true then none else sp.value k' := by
  unfold Spec.expire Spec.overdue Spec.value
  cases h : kvGet sp.ents k with
  | none => simp
  | some e =>
    by_cases ho : e.overdue sp.now = true
    · simp only [ho, ite_true, Spec.del, kvGet_kvErase, and_true]
      by_cases hk : k' = k <;> simp [hk]
    · simp [ho]

theorem C14_callback_is_expiry_or_nothing (st : State) (sp : Spec) (id : Nat) :
    specStepA st sp (.runCb id) = sp ∨ ∃ k, specStepA st sp (.runCb id) = sp.expire k := by
  simp only [specStepA, specCb]
  split
  · exact Or.inl rfl
  · split
    · exact Or.inr ⟨_, rfl⟩
    · exact Or.inl rfl

/-- Non-vacuity: a delayed callback of a superseded timer does nothing, a delayed callback of the
governing timer expires the key, and in both cases model and ideal store agree. -/
example :
    let a := runA init {} [.set "a" (some "v") 20, .fire 25, .set "a" (some "v") 100, .runCb 0]
    let b := runA init {} [.set "a" (some "v") 20, .fire 25, .set "b" (some "w") 0, .runCb 0]
    a.1.data = [("a", "v")] ∧ a.2.value "a" = some "v" ∧
    b.1.data = [("b", "w")] ∧ b.2.value "a" = none ∧ b.2.value "b" = some "w" := by
  decide

end SigModel.Transient
