/-
C06 — A dropped connection can be resumed without loss; bye and expiry are final.

Local theorems about the model's queueing and resume code, plus corollaries of
the invariant.  The global statement ("the concatenation of what the old
connection saw with what is flushed on resume equals what a connected session
would have received") follows from `C06_queue_or_write` (every message handed to
a session goes through the same filter and is either written or queued, in
order, queued chat-refresh notices merged) and `C06_resume_flushes_in_order`;
it is not stated as one theorem over two runs (partial, see DESIGN.md).
-/
import SigModel.Props.C19

namespace SigModel.Hub

/-- **Queue or write.** Handing message `m` to a (non-virtual) session runs the same filter whether or
not a connection is attached; the filtered message is then written to the connection, or appended to
the queue — except that a second chat-refresh notice is not queued again. -/
theorem C06_queue_or_write (a : Acc) (s : Nat) (m : Msg) (x : Sess) (hx : a.h.sess s = some x) (hk : x.kind ≠ .virtual) :
    match (filterMessage x m).2 with
    | none => (sendTo a s m).outs = a.outs ∧ ((sendTo a s m).h.sess s).map (·.pending) = some x.pending
    | some m1 =>
      match x.conn with
      | some c => (sendTo a s m).outs = a.outs ++ [⟨c, m1, some x.backend⟩] ∧
                  ((sendTo a s m).h.sess s).map (·.pending) = some x.pending
      | none => (sendTo a s m).outs = a.outs ∧
                ((sendTo a s m).h.sess s).map (·.pending) =
                  some (if isChatRefresh m1 && x.pending.any isChatRefresh then x.pending else x.pending ++ [m1]) := by
  unfold sendTo
  simp only [target_nonvirtual hx hk, hx]
  have hpend : (filterMessage x m).1.pending = x.pending := by
    cases m <;> simp only [filterMessage] <;> try rfl
    split <;> rfl
  have hconn : (filterMessage x m).1.conn = x.conn := by
    cases m <;> simp only [filterMessage] <;> try rfl
    split <;> rfl
  have hbk : (filterMessage x m).1.backend = x.backend := by
    cases m <;> simp only [filterMessage] <;> try rfl
    split <;> rfl
  generalize (filterMessage x m).1 = x1 at hpend hconn hbk
  cases (filterMessage x m).2 with
  | none => simp [hubf, hpend]
  | some m1 =>
    simp only []
    rw [← hconn]
    cases hc : x1.conn with
    | some c => simp [hubf, hpend, hbk]
    | none =>
      simp only []
      rw [hpend]
      split <;> simp [hubf, hpend, *]

theorem flushPending_outs (s : Nat) (y : Sess) (c : Nat) (hc : y.conn = some c) :
    ∀ (l : List Msg) (a : Acc), a.h.sess s = some y →
      (flushPending a s l).outs = a.outs ++ l.map (fun m => (⟨c, m, some y.backend⟩ : Out)) := by
  intro l
  induction l with
  | nil => intro a _; simp [flushPending]
  | cons m l ih =>
    intro a hy
    have step : flushPending a s (m :: l) = flushPending
        { a with outs := a.outs ++ [⟨c, m, some y.backend⟩], closes := if isClosing y m then a.closes ++ [s] else a.closes } s l := by
      unfold flushPending
      simp only [List.foldl_cons, hy, hc]
    have := ih { a with outs := a.outs ++ [⟨c, m, some y.backend⟩], closes := if isClosing y m then a.closes ++ [s] else a.closes } hy
    rw [step, this]
    simp

/-- The record of a session right after it was attached to connection `c`. -/
def resumed (x : Sess) (c : Nat) : Sess := { x with conn := some c, pending := [] }

theorem resumeAcc_sess (a : Acc) (c s : Nat) (x : Sess) : (resumeAcc a c s x).h.sess s = some (resumed x c) := by
  unfold resumeAcc resumeTables resumed; cases x.conn <;> simp [hubf]

/-- **Resume flushes in order.** A resume with the id of live session `s` on an open connection without
session attaches the connection, answers with the same session id (a previous connection is told
`session_resumed` first), then hands over everything that was queued — in queue order, nothing
dropped, nothing duplicated; after the queue at most one participants list follows.  The session
keeps its room and its queue is empty. -/
theorem C06_resume_flushes_in_order (a : Acc) (c s : Nat) (x : Sess)
    (hopen : a.h.connOpen c = true) (hfree : a.h.connSess c = none)
    (hx : a.h.sess s = some x) (hk : x.kind ≠ .virtual) :
    ∃ tail, (processResume a c (some s)).outs =
        (resumeAcc a c s x).outs ++ x.pending.map (fun m => (⟨c, m, some x.backend⟩ : Out)) ++ tail ∧
      (∀ o, o ∈ tail → ∃ us, o.msg = .partUsers us) ∧
      ∃ x', (processResume a c (some s)).h.sess s = some x' ∧ x'.conn = some c ∧ x'.room = x.room ∧ x'.pending = [] := by
  have hrs := resumeAcc_sess a c s x
  have hfl := flushPending_outs s (resumed x c) c rfl x.pending (resumeAcc a c s x) hrs
  have hfh := flushPending_h s x.pending (resumeAcc a c s x)
  unfold processResume
  simp only [hopen, hfree, Bool.not_true, Option.isSome_none, Bool.or_self, Bool.false_eq_true, if_false, hx, hk]
  generalize flushPending (resumeAcc a c s x) s x.pending = F at hfl hfh
  have hFs : F.h.sess s = some (resumed x c) := by rw [hfh]; exact hrs
  have hbk : (resumed x c).backend = x.backend := rfl
  rw [hbk] at hfl
  by_cases hn : needsParticipants x.pending = true
  · simp only [hn, if_true]
    unfold notifyResumed
    simp only [hFs]
    have base : ∃ x', F.h.sess s = some x' ∧ x'.conn = some c ∧ x'.room = x.room ∧ x'.pending = [] :=
      ⟨_, hFs, rfl, rfl, rfl⟩
    cases hr : (resumed x c).room with
    | none => exact ⟨[], by simp [hfl], by simp, base⟩
    | some r =>
      simp only []
      cases hrm : F.h.rooms (resumed x c).backend r with
      | none => exact ⟨[], by simp [hfl], by simp, base⟩
      | some rm =>
        simp only []
        by_cases he : addInternalSessions F.h rm rm.users = []
        · simp only [he, if_true]; exact ⟨[], by simp [hfl], by simp, base⟩
        · simp only [he, if_false]
          have hq := C06_queue_or_write F s (.partUsers (addInternalSessions F.h rm rm.users)) _ hFs hk
          simp only [filterMessage, resumed] at hq
          obtain ⟨q1, q2⟩ := hq
          refine ⟨[⟨c, .partUsers (addInternalSessions F.h rm rm.users), some x.backend⟩], by rw [q1, hfl], ?_, ?_⟩
          · intro o ho; simp at ho; subst ho; exact ⟨_, rfl⟩
          · have hcore := (sendTo_core F s (.partUsers (addInternalSessions F.h rm rm.users))).sess_fields s
            simp only [hFs] at hcore
            rcases hcore with ⟨h0, _⟩ | ⟨y, y', hy, hy', e1, e2, e3, e4, e5, e6, e7, e8, e9⟩
            · cases h0
            · cases hy
              refine ⟨y', hy', e6, by rw [e4]; rfl, ?_⟩
              rw [hy'] at q2; simpa using q2
  · simp only [hn, Bool.false_eq_true, if_false]
    exact ⟨[], by simp [hfl], by simp, _, hFs, rfl, rfl, rfl⟩

/-- **Only the private id resumes.** An id that does not decode as a private id of this server — the
public id included (C15: the two kinds are disjoint) — is refused with `no_such_session`; nothing
changes. -/
theorem C06_unknown_id_refused (a : Acc) (c : Nat) (hopen : a.h.connOpen c = true) (hfree : a.h.connSess c = none) :
    processResume a c none = { a with outs := a.outs ++ [⟨c, .error "no_such_session", none⟩] } := by
  unfold processResume
  simp [hopen, hfree]

/-- **Bye and expiry are final.** Once the session is gone, its id is refused … -/
theorem C06_ended_refused (a : Acc) (c s : Nat) (hopen : a.h.connOpen c = true) (hfree : a.h.connSess c = none)
    (hs : a.h.sess s = none) :
    processResume a c (some s) = { a with outs := a.outs ++ [⟨c, .error "no_such_session", none⟩] } := by
  unfold processResume
  simp [hopen, hfree, hs]

/-- … and bye ends it: after `bye` on its connection the session does not exist (and by
`C07_no_residue` it is in no room). The same holds for every session closed by housekeeping
(`closeSession_sub`). -/
theorem C06_bye_ends_session (a : Acc) (c s : Nat) (hi : Inv a.h) (hcs : a.h.connSess c = some s) :
    (processBye a c).h.sess s = none := by
  unfold processBye
  simp only [hcs]
  refine (closeSession_sub _ s ?_).2
  exact processDisconnect_inv _ c hi

/-- **A resumed session does not expire.** After a successful resume the session is no longer on the expiry
list (whatever connection it had before — also on a take-over), so the housekeeping that closes the sessions
on that list leaves it alone until its connection drops again. -/
theorem C06_resume_off_expiry_list (a : Acc) (c s : Nat) (x : Sess)
    (hopen : a.h.connOpen c = true) (hfree : a.h.connSess c = none)
    (hx : a.h.sess s = some x) (hk : x.kind ≠ .virtual) :
    s ∉ (processResume a c (some s)).h.expired := by
  have hfh := flushPending_h s x.pending (resumeAcc a c s x)
  have hexp : s ∉ (resumeAcc a c s x).h.expired := by
    unfold resumeAcc resumeTables
    simp only [removeL, List.mem_filter, ne_eq, decide_not, Bool.not_eq_eq_eq_not, Bool.not_true,
      decide_eq_false_iff_not, not_true_eq_false, and_false, not_false_eq_true]
  unfold processResume
  simp only [hopen, hfree, Bool.not_true, Option.isSome_none, Bool.or_self, Bool.false_eq_true, if_false, hx, hk]
  split
  · have hc := (notifyResumed_core (flushPending (resumeAcc a c s x) s x.pending) s).expired
    rw [hc, hfh]; exact hexp
  · rw [hfh]; exact hexp

/-- The model takes a resumed session off the expiry list whatever connection it had before
(`resumeTables`); the source does so while the `delete(h.expiredSessions, …)` of the resume branch is not
nested under a condition on the previous connection — regenerated on every run.  Without it a resumed
session would still expire ("stays in its room" would fail). -/
theorem C06_resume_clears_expiry : Generated.Hub.resumeClearsExpiry = true := by decide

/-- Two assumptions of the queueing model about code it does not execute with failing sockets or cluster peers,
regenerated on every run: the flush on resume hands every queued message to the function that queues again
whatever cannot be written (nothing is removed from the queue before it is handed over), and a connection
proxied from another server refuses a message once it is closed and never blocks — so the message is queued for
the session (`C06_queue_or_write`) instead of vanishing into a dead connection. -/
theorem C06_no_message_dropped_on_dead_connection :
    Generated.Hub.flushHandsOverEveryMessage = true ∧ Generated.Hub.proxiedSendRefusesWhenClosed = true := by decide

private def demo : List Op :=
  [.connect 1, .connect 2, .connect 3, .hello 1 0 .client "alice" false false, .hello 2 0 .client "bob" false false,
   .join 1 "room" "n1" (.ok none ""), .join 2 "room" "n2" (.ok none ""), .disconnect 2,
   .message 1 false .room "m1", .message 1 false (.session (some 2)) "m2", .resume 3 (some 2), .resume 1 none]

/-- Non-vacuity: two messages arrive while bob is disconnected; the resume on a new connection gets
the same session id and both messages in order. -/
example : ((run {} demo).2.drop 10).map (fun outs => outs.map (fun o => (o.conn, o.msg))) =
    [[(3, .hello 2 "bob"), (3, .message false ⟨.room, 1, "alice"⟩ none "m1"),
      (3, .message false ⟨.session, 1, "alice"⟩ none "m2")], []] := by
  decide +kernel

end SigModel.Hub
