import SigModel.Driver.C17

open SigModel.Driver

def main (args : List String) : IO UInt32 := do
  let inp ← IO.getStdin
  let out ← IO.getStdout
  match args with
  | ["C17"] => loop ({} : C17.St) C17.step inp out {}; return 0
  | _ => IO.eprintln "usage: driver <property id>"; return 2
