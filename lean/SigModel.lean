-- Root of the `SigModel` library: every property module (models, specs and lemmas come with them).
import SigModel.Props.C17
